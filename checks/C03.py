#!/usr/bin/env python3
"""C03 — streams are portable across target languages and formats.

Deterministic simulation of multi-party stream exchange: writer, reader and relay nodes (generated
Python in-process, generated C++ in a harness executable) are joined by a simulated channel with seeded
delivery chunking, alignment padding around the 65536-byte staging buffers of the real runtimes, and
(C01) injected write errors; the oracle is the independent reference codec.  The breadth over models and
values comes from the seeded workload generator; the simulated dimensions are the channel and the
composition of nodes (see DESIGN.md section 5).
"""
import os, sys, io, json
sys.path.insert(0, os.path.join(os.path.dirname(os.path.abspath(__file__)), ".."))
from common.checklib import main_guard
from gen import model as M, refcodec as R
from streamworld import sw, pynode as P, cppnode as C, runner, roundtrip as RT

PROP = "C03"


def model_task(task, ybin, root):
    return RT.model_task(task, ybin, root, PROP)


def replay_doc(doc, ybin, root):
    if doc.get("kind") == "watch":
        return RT.replay_watch(doc)
    pkg = sw.unpack_pkg(doc["pkg"])
    pipeline = doc["pipeline"]
    want_cpp = "cpp." in pipeline
    model = P.PyModel(pkg, ybin, root, want_cpp=want_cpp, cpp_opts=C.CPP_OPTS)
    try:
        cm = C.CppModel(model.dir) if want_cpp else None
        proto = [p for p in model.protocols() if p.name == doc["protocol"]][0]
        stats, viols = {}, []
        cx = RT.Ctx(PROP, model, cm, {"seed": doc["seed"], "i": doc["model_index"]}, stats, viols)
        vals, parts = sw.unpack(doc["values"]), sw.unpack(doc["partitions"])
        cls = doc["violation"]["class"]
        if cls == "wire_format_deviates_from_binary_md":
            strict = R.Codec(model.env, doc_strict=True)
            a = strict.encode_stream(proto, pkg.namespace, model.schema(proto), vals)
            d, err, closed = P.read_all(model, proto, "binary", io.BytesIO(a))
            why = ("reader raised %r" % err) if err is not None else sw.flat_equal(model.env, pkg.namespace, proto, sw.flat_values(proto, vals), d)
            return bool(why), why
        if cls == "write_error_not_surfaced":
            data = cx.codec.encode_stream(proto, pkg.namespace, model.schema(proto), vals)
            out, err = P.relay(model, proto, "binary", io.BytesIO(data), "binary", P.SimSink(fail_at=doc["fail_at"]))
            return err is None, "relay error: %r" % (err,)
        if cls == "ndjson_header_not_as_documented":
            return False, "header probe is re-run by the check itself"
        rng = M.derive(doc["seed"], "replay")
        why = RT.run_pipeline(cx, proto, vals, parts, pipeline, rng, doc.get("cpp_batch"), doc.get("chunk_mode", "whole"), collect=doc.get("collect"), ostate=doc.get("ostate", 0))
        return bool(why), why
    finally:
        model.close()


def main():
    runner.run(PROP, "exploration", "checks.C03", quick_models=16, thorough_budget=1800,
               rule=("one case = one generated protocol x one seeded value workload (edge integers, NaN/inf where the format allows, multi-byte UTF-8, empty and long "
                     "containers, empty streams, 25% with alignment padding so that streams exceed 64 KiB (and 1 MiB in the thorough tier) and the staging-buffer boundary "
                     "falls inside values) pushed through every pipeline of this property (python always; C++ relays for a share of the models), each pipeline with a seeded "
                     "delivery chunking and CopyTo batch sizes; terminal oracle = reference decoder / byte-exact re-encoding / generated reader"),
               real_code="generated Python package + shipped _binary.py/_ndjson.py/yardl_types.py; generated C++ + shipped yardl/detail/** headers (g++ -std=c++17)",
               stubbed="C++ nd-array header and date/date.h (third-party, not installable here); C++ NDJSON pipelines exclude date/time/datetime for that reason",
               assumptions=["reference codec per docs/reference with one declared deviation: int8/uint8 as one raw byte (probed and reported by C01)",
                            "NDJSON carries finite floats only"],
               replay_fn=replay_doc, quick_budget=170,
               fault_keys=("watch_sessions", "short_read_delivery", "stream_gt_64k", "stream_gt_1m", "stream_ends_on_a_staging_buffer_boundary", "all_streams_empty", "write_error_injected"))


if __name__ == "__main__":
    main_guard(main)
