#!/usr/bin/env python3
"""C05 — accepted schema evolution preserves data across versions (C++ / binary).

Multi-party simulation with version skew ("rolling upgrade"): nodes generated from different
versions of one model share a channel.  Version chains M0 -> M1 (-> M2) are produced by seeded
*documented* edits (docs/cpp/evolution.md) restricted to the classes whose runtime meaning the
documentation fixes; the newest package lists its predecessors under `versions:`.
  old stream (reference-encoded under M_i)  -> new reader -> new writer(Current)  -> reference decoder under M_new
  new stream -> new reader -> new writer(Version::v_i) -> reference decoder under M_i
  old stream -> new reader -> new writer(reader.GetVersion()) -> reference decoder under M_i   (old -> new -> old)
Oracle: a reference conversion on neutral values (unchanged parts exactly, removed parts dropped, added
parts zero/null, fields matched by name, widening exact, T -> T? wraps and T? -> T maps null to zero).
"""
import os, sys, io, json, copy
sys.path.insert(0, os.path.join(os.path.dirname(os.path.abspath(__file__)), ".."))
from common.checklib import main_guard
from gen import model as M, values as V, refcodec as R, edits as E
from gen.model import Prim, Opt, Union, Vec, Arr, Map
from streamworld import sw, pynode as P, cppnode as C, runner

PROP = "C05"


class MustFail(Exception):
    """The value has no counterpart in the target type and the documentation names the case as a runtime error
    ("Numeric overflow when converting between numbers"): finishing normally with some other number is not a conversion."""


class Unconvertible(Exception):
    pass


def zero(env, t):
    res = env.resolve(t)
    if isinstance(res, tuple):
        if res[0] == "record":
            return {n: zero(env, ft) for n, ft in env.record_fields(res)}
        return 0
    if isinstance(res, Prim):
        n = res.name
        if n == "bool":
            return False
        if n == "string":
            return ""
        if n in ("float32", "float64"):
            return 0.0
        if n.startswith("complex"):
            return (0.0, 0.0)
        return 0
    if isinstance(res, (Opt,)):
        return None
    if isinstance(res, Union):
        return None if res.nullable else ("u", 0, zero(env, res.cases[0][1]))
    if isinstance(res, Vec):
        return [] if res.length is None else [zero(env, res.inner) for _ in range(res.length)]
    if isinstance(res, Map):
        return []
    if isinstance(res, Arr):
        if isinstance(res.dims, tuple) and all(l is not None for _, l in res.dims):
            n = 1
            for _, l in res.dims:
                n *= l
            return ("a", tuple(l for _, l in res.dims), [zero(env, res.inner) for _ in range(n)])
        if res.dims is None:
            return ("a", (), [zero(env, res.inner)])      # a default dynamic array has rank 0, i.e. one element
        nd = res.dims if isinstance(res.dims, int) else len(res.dims)
        return ("a", tuple([0] * nd), [])
    raise TypeError(res)


def signature(env, t, depth=0):
    """Deep structural signature of a type (records expanded), to tell whether two versions of it differ."""
    res = env.resolve(t)
    if depth > 12:
        return "..."
    if isinstance(res, tuple):
        if res[0] == "record":
            return ("rec", tuple((n, signature(env, ft, depth + 1)) for n, ft in env.record_fields(res)))
        return ("enum", res[1].base, tuple(res[1].values))
    if isinstance(res, Prim):
        return res.name
    if isinstance(res, Opt):
        return ("opt", signature(env, res.inner, depth + 1))
    if isinstance(res, Union):
        return ("union", res.nullable, tuple((tg, signature(env, c, depth + 1)) for tg, c in res.cases))
    if isinstance(res, Vec):
        return ("vec", res.length, signature(env, res.inner, depth + 1))
    if isinstance(res, Arr):
        return ("arr", repr(res.dims), signature(env, res.inner, depth + 1))
    if isinstance(res, Map):
        return ("map", signature(env, res.key, depth + 1), signature(env, res.value, depth + 1))
    return repr(res)


LOSSY = []      # notes left by convert(): places where the documentation allows the zero value *or* a runtime error


def _same_case(env_a, cta, env_b, tb):
    return signature(env_a, cta) == signature(env_b, tb)


def convert(env_a, ta, env_b, tb, v):
    """Reference conversion of neutral value v of type ta (in env_a) to type tb (in env_b)."""
    ra, rb = env_a.resolve(ta), env_b.resolve(tb)
    if isinstance(ra, Union) and not isinstance(ra, tuple) and not isinstance(rb, tuple) and not isinstance(rb, (Union, Opt)):
        # [T, U] -> T: the value of the kept case; for a value of a removed case the documentation offers the zero value or a
        # runtime error ("Default zero values", "Runtime errors: incompatible union case") - never anything else
        if v is None:
            return zero(env_b, tb)
        cta = ra.cases[v[1]][1]
        if _same_case(env_a, cta, env_b, tb):
            return convert(env_a, cta, env_b, tb, v[2])
        LOSSY.append("value of removed union case %s" % ra.cases[v[1]][0])
        return zero(env_b, tb)
    if isinstance(rb, Union) and not isinstance(rb, tuple) and not isinstance(ra, tuple) and not isinstance(ra, (Union, Opt)):
        # T -> [T, U]
        for j, (tg, ct) in enumerate(rb.cases):
            if _same_case(env_b, ct, env_a, ta):
                return ("u", j, convert(env_a, ta, env_b, ct, v))
        raise Unconvertible("scalar is not a case of the union")
    if isinstance(ra, tuple) and isinstance(rb, tuple):
        if ra[0] == "record" and rb[0] == "record":
            fa = dict(env_a.record_fields(ra))
            out = {}
            for n, ftb in env_b.record_fields(rb):
                if n in fa:
                    out[n] = convert(env_a, fa[n], env_b, ftb, v[n])
                else:
                    out[n] = zero(env_b, ftb)
            return out
        if ra[0] == "enum" and rb[0] == "enum":
            lo, hi = M.INT_RANGE[rb[1].base or "int32"]
            if not (lo <= v <= hi):
                raise Unconvertible("enum value outside the target's base type")
            return v
        raise Unconvertible("record/enum mismatch")
    if isinstance(ra, tuple) or isinstance(rb, tuple):
        if isinstance(rb, Opt):
            return convert(env_a, ta, env_b, rb.inner, v)
        if isinstance(ra, Opt):
            return zero(env_b, tb) if v is None else convert(env_a, ra.inner, env_b, tb, v)
        raise Unconvertible("named vs structural")
    if isinstance(ra, Prim) and isinstance(rb, Prim):
        if ra.name == rb.name:
            return v
        ints = M.INT_RANGE
        if ra.name in ints and rb.name in ints:
            lo, hi = ints[rb.name]
            if not (lo <= v <= hi):
                raise MustFail("integer overflow: %d does not fit %s" % (v, rb.name))
            return v
        if ra.name == "float32" and rb.name == "float64":
            return v
        if ra.name == "float64" and rb.name == "float32":
            try:
                inexact = V.f32(v) != v and v == v
            except OverflowError:
                inexact = True          # finite, but beyond the float32 range
            if inexact:
                raise Unconvertible("float narrowing is not exact")
            return v
        raise Unconvertible("%s -> %s" % (ra.name, rb.name))
    if isinstance(rb, Opt) and not isinstance(ra, Opt):
        return convert(env_a, ta, env_b, rb.inner, v)              # T -> T?
    if isinstance(ra, Opt) and not isinstance(rb, Opt):
        return zero(env_b, tb) if v is None else convert(env_a, ra.inner, env_b, tb, v)   # T? -> T: null becomes the zero value
    if isinstance(ra, Opt) and isinstance(rb, Opt):
        return None if v is None else convert(env_a, ra.inner, env_b, rb.inner, v)
    if isinstance(ra, Vec) and isinstance(rb, Vec):
        return [convert(env_a, ra.inner, env_b, rb.inner, x) for x in v]
    if isinstance(ra, Map) and isinstance(rb, Map):
        return [(convert(env_a, ra.key, env_b, rb.key, k), convert(env_a, ra.value, env_b, rb.value, x)) for k, x in v]
    if isinstance(ra, Arr) and isinstance(rb, Arr):
        return ("a", v[1], [convert(env_a, ra.inner, env_b, rb.inner, x) for x in v[2]])
    if isinstance(ra, Union) and isinstance(rb, Union):
        if v is None:
            return None
        tag = ra.cases[v[1]][0]
        cta = ra.cases[v[1]][1]
        for j, (tg, ct) in enumerate(rb.cases):
            if tg == tag:
                if isinstance(env_a.resolve(cta), (Vec, Arr, Map, Opt)) and signature(env_a, cta) != signature(env_b, ct):
                    # yardl matches union cases across versions only when the case type is unchanged or is
                    # itself a changed named type; a container of a changed type counts as "case removed and
                    # another added" (it warns), for which the documentation allows a runtime error
                    raise Unconvertible("union case is a container of a changed definition")
                return ("u", j, convert(env_a, cta, env_b, ct, v[2]))
        raise Unconvertible("union case removed")
    raise Unconvertible("%r -> %r" % (type(ra).__name__, type(rb).__name__))


def convert_protocol(env_a, pa, ns_a, env_b, pb, ns_b, vals):
    """Values of protocol pa (version a) as protocol pb (version b) sees them."""
    out = []
    for j, (name, tb, stream_b) in enumerate(pb.steps):
        qb = M.qualify(tb, ns_b)
        if j < len(pa.steps):
            qa = M.qualify(pa.steps[j][1], ns_a)
            if stream_b:
                out.append([convert(env_a, qa, env_b, qb, x) for x in vals[j]])
            else:
                out.append(convert(env_a, qa, env_b, qb, vals[j]))
        else:
            out.append([] if stream_b else zero(env_b, qb))
    return out


def make_chain(rng, force=()):
    cfg = M.GenConfig.swarm(rng.fork("cfg"))
    cfg.imports = 0
    cfg.generics = False
    cfg.w_map *= 0.3
    cfg.w_union *= 0.3
    cfg.max_depth = min(cfg.max_depth, 2)
    cfg.n_records = (2, 4)
    cfg.n_protocols = (1, 2)
    cfg.time_types = False
    cfg.no_bool_vectors = True
    base = M.gen_package(rng.next(), cfg, targets=("python",))
    # steer: protocols carry records directly, where documented edits apply
    recs = [d for d in base.defs() if isinstance(d, M.Record) and not d.params]
    for d in base.defs():
        if isinstance(d, M.Protocol) and recs:
            r = rng.choice(recs)
            d.steps.append(("evo1", M.Named(r.name), False))
            d.steps.append(("evo2", M.Named(rng.choice(recs).name), True))
            # element types that documented edits may widen: in a record field, a vector step and a stream step
            d.steps.append(("evo3", M.Vec(M.Prim(rng.choice(["int32", "int16", "float32", "uint8"]))), False))
            d.steps.append(("evo4", M.Prim(rng.choice(["int32", "uint16", "float32"])), True))
            d.steps.append(("evo5", M.Vec(M.Prim(rng.choice(["int32", "int8"]))), True))
            d.steps.append(("evo6", M.Opt(M.Prim(rng.choice(["int32", "float32", "uint16"]))), True))
            # (not the element type of evo6: yardl - also the pinned upstream - reports an unchanged `stream<T?>` step as an
            #  incompatible change once another step of type `T?` was changed in the same protocol; a verdict matter, C06)
            d.steps.append(("evo7", M.Opt(M.Prim(rng.choice(["int16", "int8"]))), False))
            d.steps.append(("evo10", M.Vec(M.Opt(M.Prim(rng.choice(["int32", "uint16", "float32"])))), False))
            # steps that carry the names the generated C++ gives its own parameters (`value` of the single-item and scalar
            # overloads, `values` of the batched one), with types that documented edits may widen
            if d is [x for x in base.defs() if isinstance(x, M.Protocol)][0]:
                d.steps.append(("value", M.Prim(rng.choice(["int32", "uint16", "float32", "uint32", "size"])), False))
                d.steps.append(("values", M.Prim(rng.choice(["int32", "int16", "float32"])), True))
    # named types whose definition gets wider between versions (`EvoId: float` -> `EvoId: double`), used as a value, as the
    # element of a vector, as stream item and as record field: the name stays, its meaning per version differs
    wal = ()
    ra = rng.fork("evoalias")
    if ra.chance(0.6):
        fn0 = sorted(base.files)[0]
        base.files[fn0].append(M.Alias("EvoId", (), M.Prim(ra.choice(["float32", "float32", "int16", "uint8", "int32"]))))
        base.files[fn0].append(M.Alias("EvoIds", (), M.Vec(M.Prim(ra.choice(["float32", "int16", "uint8"])))))
        base.files[fn0].append(M.Alias("EvoMaybe", (), M.Opt(M.Prim(ra.choice(["float32", "int16", "uint8"])))))
        wal = ("EvoId", "EvoIds", "EvoMaybe")
        # a record that does not change itself and is made of fixed-size fields only, one of them of the changing named type:
        # with `EvoId: double` it is a plain 16-byte struct in the current version
        base.files[fn0].append(M.Record("EvoSample", (), [("t", M.Named("EvoId")), ("v", M.Prim("float64"))]))
        for d in base.defs():
            if isinstance(d, M.Protocol):
                d.steps.append(("evo11", M.Named("EvoId"), False))
                d.steps.append(("evo12", M.Vec(M.Named("EvoId")), False))
                d.steps.append(("evo13", M.Named("EvoId"), True))
                # (not as array element or map value: yardl reports an array / a map of a named type whose definition changed as an
                #  incompatible change of the step - a verdict matter, C06)
                d.steps.append(("evo14", M.Vec(M.Named("EvoId"), 3), ra.chance(0.5)))
                d.steps.append(("evo18", M.Vec(M.Vec(M.Named("EvoId"), 2)), False))
                d.steps.append(("evo16", M.Named("EvoIds"), ra.chance(0.5)))
                d.steps.append(("evo17", M.Named("EvoMaybe"), ra.chance(0.5)))
                d.steps.append(("evo30", M.Vec(M.Named("EvoSample")), False))
                d.steps.append(("evo31", M.Named("EvoSample"), True))
                d.steps.append(("evo32", M.Vec(M.Named("EvoSample"), 2), ra.chance(0.5)))
        for r in recs:
            if ra.chance(0.4):
                r.fields.append(("evoid%d" % ra.randint(1, 99), ra.choice([M.Named("EvoId"), M.Vec(M.Named("EvoId")), M.Named("EvoIds")])))
    # unions that lose a case down to a single type ([T, U] -> T, also as vector element) and scalars that become unions
    ust, tust = (), ()
    ru = rng.fork("evounion")
    if ru.chance(0.6):
        def u2():
            a, b = ru.sample(["int32", "string", "float64", "bool"], 2)
            return M.Union(((a, M.Prim(a)), (b, M.Prim(b))))
        for d in base.defs():
            if isinstance(d, M.Protocol):
                d.steps.append(("evo20", u2(), True))
                d.steps.append(("evo21", u2(), False))
                d.steps.append(("evo22", M.Vec(u2()), False))
                d.steps.append(("evo23", M.Prim(ru.choice(["int32", "string", "float64"])), True))
                d.steps.append(("evo24", M.Prim(ru.choice(["int32", "string", "bool"])), False))
        for r in recs:
            if ru.chance(0.4):
                r.fields.append(("evounion%d" % ru.randint(1, 99), u2() if ru.chance(0.6) else M.Vec(u2())))
        ust, tust = ("evo20", "evo21", "evo22"), ("evo23", "evo24")
    must = ()
    if len(recs) >= 2 and rng.chance(0.6):
        # one generic record instantiated with two different records that the edits below may change: the
        # compatibility code of every instantiation's argument is needed, not only that of the first one walked
        box = M.Record("EvoBox", ("T",), [("item", M.TParam("T")), ("count", M.Prim("int32")), ("more", M.Vec(M.TParam("T")))])
        fn0 = sorted(base.files)[0]
        base.files[fn0].append(box)
        # two records that are reachable through the generic record only
        inner = []
        for nm in ("EvoInnerA", "EvoInnerB"):
            r = M.Record(nm, (), [("ident", M.Prim(rng.choice(["int32", "int16"]))), ("label", M.Prim("string")), ("weight", M.Opt(M.Prim("float32"))),
                                  ("codes", M.Vec(M.Prim(rng.choice(["int16", "uint8"]))))])
            base.files[fn0].append(r)
            inner.append(r)
        args = inner if rng.chance(0.6) else rng.sample(recs, 2)
        for d in base.defs():
            if isinstance(d, M.Protocol):
                d.steps.append(("evo8", M.Named("EvoBox", (M.Named(args[0].name),)), rng.chance(0.5)))
                d.steps.append(("evo9", M.Named("EvoBox", (M.Named(args[1].name),)), rng.chance(0.5)))
        recs = recs + inner
        if rng.chance(0.7):
            must = (args[0].name, args[1].name)      # both instantiations' arguments change between versions
    for r in recs:
        if rng.chance(0.6):
            el = M.Prim(rng.choice(["int32", "int16", "float32"]))
            r.fields.append(("vecfield%d" % rng.randint(1, 99), M.Vec(M.Opt(el) if rng.chance(0.4) else el)))
    # the last thing in the stream: a record whose trailing fields (a string, vectors of fixed-size numbers) go away in later versions
    tails = ()
    rt = rng.fork("evotail")
    if rt.chance(0.6) or "tail" in force:
        fn0 = sorted(base.files)[0]
        base.files[fn0].append(M.Record("EvoTail", (), [("id", M.Prim("int32")), ("weights", M.Vec(M.Prim(rt.choice(["float32", "float64", "uint8"])))), ("samples", M.Vec(M.Prim("complexfloat32"))),
                                                     ("note", M.Prim("string"))]))
        for d in base.defs():
            if isinstance(d, M.Protocol):
                d.steps.append(("evolast", M.Named("EvoTail"), False))
        tails = ("EvoTail",)
    # a record that is reached through an optional and as a union case (the readers materialise those in temporaries of
    # their own) and that gains a fixed-length-vector field in a later version
    fvr = ()
    rp = rng.fork("evopoint")
    if rp.chance(0.6):
        fn0 = sorted(base.files)[0]
        base.files[fn0].append(M.Record("EvoPoint", (), [("id", M.Prim("int32")), ("label", M.Prim("string"))]))
        for d in base.defs():
            if isinstance(d, M.Protocol) and d.name != "EvoStill":
                d.steps.append(("evo40", M.Opt(M.Named("EvoPoint")), False))
                d.steps.append(("evo41", M.Union((("EvoPoint", M.Named("EvoPoint")), ("string", M.Prim("string")))), True))
                d.steps.append(("evo42", M.Named("EvoPoint"), rp.chance(0.5)))
        fvr = ("EvoPoint",)
    # a record made of fixed-size fields only and without padding, whose fields merely change places between versions: in
    # the current version it is a plain struct that containers may copy as a block - but not when the stream was written
    # in another field order
    ro = ()
    rq = rng.fork("evopair")
    if rq.chance(0.6):
        fn0 = sorted(base.files)[0]
        shape = rq.choice([[("time", "float64"), ("value", "float64")], [("gain", "float32"), ("phase", "float32"), ("drift", "float32")],
                           [("weight", "float32"), ("sample", "complexfloat32")], [("low", "uint8"), ("high", "int8")],
                           [("coarse", "float32"), ("fine", "float32"), ("total", "float64")], [("z", "complexfloat64"), ("w", "float64")]])
        base.files[fn0].append(M.Record("EvoPair", (), [(n, M.Prim(t)) for n, t in shape]))
        for d in base.defs():
            if isinstance(d, M.Protocol) and d.name != "EvoStill":
                d.steps.append(("evo50", M.Named("EvoPair"), True))
                d.steps.append(("evo51", M.Vec(M.Named("EvoPair")), False))
                d.steps.append(("evo52", M.Vec(M.Named("EvoPair"), 2), rq.chance(0.5)))
                d.steps.append(("evo53", M.Named("EvoPair"), False))
        ro = ("EvoPair",)
    # a chain that yardl documents as incompatible and is expected to reject (discarded and counted then): the base type of an
    # enumeration gets wider.  The property speaks of what yardl *accepts* - if it accepts this, the data must survive it
    eb = ()
    re_ = rng.fork("evoenumbase")
    if re_.chance(0.08):
        fn0 = sorted(base.files)[0]
        b_ = re_.choice(["int8", "uint8"])
        vals_ = [("off", 0), ("low", 1), ("mid", 5), ("high", 100)] + ([("negative", -3), ("floor", -128)] if b_ == "int8" else [("upper", 129), ("ceiling", 255)])
        base.files[fn0].append(M.Enum("EvoLevel", b_, vals_))
        for d in base.defs():
            if isinstance(d, M.Protocol) and d.name != "EvoStill":
                d.steps.append(("evo60", M.Named("EvoLevel"), False))
                d.steps.append(("evo61", M.Named("EvoLevel"), True))
                d.steps.append(("evo62", M.Vec(M.Named("EvoLevel")), False))
        eb = ("EvoLevel",)
    # ... and one protocol that none of the above touches: it stays as it is through (nearly) all versions, so that the
    # version tables of the generated code have entries that merely repeat the current schema
    base.files[sorted(base.files)[0]].append(M.Protocol("EvoStill", [("count", M.Prim("int32"), False), ("names", M.Prim("string"), True), ("gains", M.Vec(M.Prim("float32")), False)]))
    # (the record with the disappearing tail stays the last thing in the stream, whatever steering was added after it)
    for d in base.defs():
        if isinstance(d, M.Protocol):
            d.steps = [s_ for s_ in d.steps if s_[0] != "evolast"] + [s_ for s_ in d.steps if s_[0] == "evolast"]
    k = rng.fork("chainshape")
    newest = E.with_versions(base, rng.fork("ver"), k.choice([1, 2, 2, 3]), partial=True, must_edit=must,
                             order=k.choice(["oldest_first", "oldest_first", "newest_first", "shuffled"]), p_new_protocol=k.choice([0.0, 0.4]),
                             widen_steps=("evo3", "evo4", "evo6", "evo7", "evo10", "value", "values"), widen_aliases=wal, union_steps=ust, to_union_steps=tust, tail_records=tails, fixed_vector_records=fvr, reorder_only=ro, enum_bases=eb, tail_p=1.0 if "tail" in force else 0.6, add_stream_p=0.4)
    newest.speculative = bool(eb)
    # where the previous versions come from: directories next to the package, or commits of one git repository named by URL
    newest.versions_from_git = k.fork("git").chance(0.3)
    return newest


def doc(model, proto, ctx, mode, label, vals, detail):
    return {"kind": "c05", "pkg": sw.pack_pkg(model.pkg), "files": M.render_tree(model.pkg, ""), "protocol": proto.name, "mode": mode, "version": label,
            "values": sw.pack(vals), "detail": detail[:600], "seed": ctx["seed"], "model_index": ctx["i"], "values_repr": repr(vals)[:1200]}


def run_modes(model, cm, old_models, proto, rng, stats, viols, ctx, only=None):
    env_new, ns = model.env, model.pkg.namespace
    codec_new = R.Codec(env_new)
    schema_new = model.schema(proto)
    nb = cm.copyto[proto.name]
    inputs, runs, meta = [], [], []
    for label, (old_pkg, old_env, old_schemas) in old_models.items():
        old_proto = old_pkg.find(proto.name)
        if old_proto is None or proto.name not in old_schemas:
            continue
        codec_old = R.Codec(old_env)
        for rep in range(3):
            r = rng.fork(label, rep)
            # (a) old stream -> new reader -> writer(Current)
            vals_old = sw.gen_values(old_env, ns, old_proto, r, finite=True, items=(0, 4))
            data_old = codec_old.encode_stream(old_proto, ns, old_schemas[proto.name], vals_old, sw.gen_partitions(old_proto, vals_old, r))
            inputs.append(data_old)
            runs.append({"proto": proto.name, "op": "relay", "in_fmt": "binary", "out_fmt": "binary", "input": len(inputs) - 1, "batch": [r.choice([1, 2, 3, 7])] * nb, "version": "Current"})
            meta.append(("old_to_new", label, vals_old, old_proto, old_env, codec_old, old_schemas[proto.name]))
            # (c) old -> new -> old
            runs.append({"proto": proto.name, "op": "relay", "in_fmt": "binary", "out_fmt": "binary", "input": len(inputs) - 1, "batch": [1] * nb, "version": "same_as_reader"})
            meta.append(("old_new_old", label, vals_old, old_proto, old_env, codec_old, old_schemas[proto.name]))
            # (b) new stream -> writer(Version::label)
            vals_new = sw.gen_values(env_new, ns, proto, r.fork("new"), finite=True, items=(0, 4))
            data_new = codec_new.encode_stream(proto, ns, schema_new, vals_new, sw.gen_partitions(proto, vals_new, r))
            inputs.append(data_new)
            if rep == 0 and len(old_proto.steps) == len(proto.steps):
                # (d) the caller's variables are reused from file to file: a file of the current version is read into them first,
                # then the old one into the same variables (what the new version added must come out as the default all the same),
                # and what the second pass delivered is written out under the current version
                def read_all(vv, steps_):
                    ops_ = []
                    for k_, (_, _, st_) in enumerate(steps_):
                        ops_ += ([["R1D", k_]] * (len(vv[k_]) + 1)) if st_ else [["R1D", k_]]
                    return ops_
                script = [["mkRI", "binary", len(inputs) - 1]] + read_all(vals_new, proto.steps) + [["CR"], ["CLRQ"], ["mkRI", "binary", len(inputs) - 2]] + read_all(vals_old, proto.steps)
                script += [["CR"], ["mkW", "binary", "Current"]]
                if len(old_proto.steps) == len(proto.steps):
                    for k_, (_, _, st_) in enumerate(proto.steps):
                        script += ([["W1", k_]] * len(vals_old[k_]) + [["E", k_]]) if st_ else [["W1", k_]]
                    script += [["CW"]]
                    runs.append({"proto": proto.name, "op": "script", "input": len(inputs) - 1, "script": script})
                    meta.append(("old_to_new_reused_destination", label, vals_old, old_proto, old_env, codec_old, old_schemas[proto.name]))
            runs.append({"proto": proto.name, "op": "relay", "in_fmt": "binary", "out_fmt": "binary", "input": len(inputs) - 1, "batch": [1] * nb, "version": label})
            meta.append(("new_to_old", label, vals_new, old_proto, old_env, codec_old, old_schemas[proto.name]))
    if not runs:
        return
    results = cm.run_plan(inputs, runs, timeout=180)
    for res, (mode, label, vals, old_proto, old_env, codec_old, old_schema) in zip(results, meta):
        if only and (mode, label) != only:
            continue
        stats["runs"] = stats.get("runs", 0) + 1
        stats[mode] = stats.get(mode, 0) + 1
        if res is None:
            continue
        if res.get("crashed"):
            viols.append(({"class": "crashed_on_cross_version_stream", "mode": mode}, doc(model, proto, ctx, mode, label, vals, res.get("stderr", "")[-300:])))
            continue
        # reference conversion
        del LOSSY[:]
        try:
            if mode in ("old_to_new", "old_to_new_reused_destination"):
                want = convert_protocol(old_env, old_proto, ns, env_new, proto, ns, vals)
                dec = lambda out: codec_new.decode_stream(proto, ns, out, schema_new)[0]
                tgt_env, tgt_proto = env_new, proto
            elif mode == "new_to_old":
                want = convert_protocol(env_new, proto, ns, old_env, old_proto, ns, vals)
                dec = lambda out: codec_old.decode_stream(old_proto, ns, out, old_schema)[0]
                tgt_env, tgt_proto = old_env, old_proto
            else:
                mid = convert_protocol(old_env, old_proto, ns, env_new, proto, ns, vals)
                want = convert_protocol(env_new, proto, ns, old_env, old_proto, ns, mid)
                dec = lambda out: codec_old.decode_stream(old_proto, ns, out, old_schema)[0]
                tgt_env, tgt_proto = old_env, old_proto
        except MustFail as e:
            stats["reference_says_numeric_overflow"] = stats.get("reference_says_numeric_overflow", 0) + 1
            if res["ok"]:
                viols.append(({"class": "numeric_overflow_not_reported", "mode": mode}, doc(model, proto, ctx, mode, label, vals, "%s, but the relay finished normally" % e)))
            continue
        except Unconvertible as e:
            stats["reference_says_runtime_error_allowed"] = stats.get("reference_says_runtime_error_allowed", 0) + 1
            continue       # the documentation allows a runtime error here; a value is not judged either
        if LOSSY:
            stats["reference_says_zero_value_or_runtime_error"] = stats.get("reference_says_zero_value_or_runtime_error", 0) + 1
            if not res["ok"]:
                continue       # the runtime error the documentation allows for a value of a removed union case
        if mode == "old_to_new_reused_destination" and res["ok"] and any(c_.get("r") == "exc" for c_ in res.get("calls", [])):
            res = dict(res, ok=False, phase="script", what=next(c_.get("what") for c_ in res["calls"] if c_.get("r") == "exc"))
        if not res["ok"]:
            viols.append(({"class": "error_on_convertible_stream", "mode": mode}, doc(model, proto, ctx, mode, label, vals, "%s: %s" % (res["phase"], res.get("what")))))
            continue
        try:
            got = dec(bytes.fromhex(res["out"]))
        except (R.Truncated, R.Malformed) as e:
            viols.append(({"class": "output_not_decodable_under_target_version", "mode": mode}, doc(model, proto, ctx, mode, label, vals, repr(e))))
            continue
        why = sw.flat_equal(tgt_env, ns, tgt_proto, sw.flat_values(tgt_proto, want), sw.flat_values(tgt_proto, got))
        if why:
            viols.append(({"class": "value_not_converted_as_documented", "mode": mode}, doc(model, proto, ctx, mode, label, vals, why)))


def open_models(newest, ybin, root):
    """(model of newest package incl. C++, {label: (old pkg, env, {protocol: schema})}).  Raises GeneratorRejected if yardl rejects the chain."""
    model = P.PyModel(newest, ybin, root, want_cpp=True, cpp_opts=C.CPP_OPTS)
    old_models = {}
    try:
        for label, old in newest.versions:
            op = copy.deepcopy(old)
            op.dirname = "pkg"
            om = P.PyModel(op, ybin, root)
            try:
                schemas = {p.name: om.schema(p) for p in om.protocols()}
            finally:
                om.close()
            old_models[label] = (old, M.Env(old), schemas)
        # PyModel(newest) must be re-imported: the old versions share its module name
        model._purge()
        import importlib
        sys.path.insert(0, model.pydir)
        try:
            model.mod = importlib.import_module(model.modname)
        finally:
            sys.path.remove(model.pydir)
    except BaseException:
        model.close()
        raise
    return model, old_models


def model_task(task, ybin, root):
    seed, i, quick = task["seed"], task["i"], task["tier"] == "quick"
    rng = M.derive(seed, "c05", i)
    newest = make_chain(rng)
    stats, viols, cases = {}, [], []
    spec = getattr(newest, "speculative", False) and any(e.startswith("widen_enum_base") for l in getattr(newest, "edit_log", []) for e in l)
    try:
        model, old_models = open_models(newest, ybin, root)
    except P.GeneratorRejected:
        if spec:
            return {"stats": {"chains_with_a_widened_enum_base_rejected_by_yardl(as documented: nothing to judge)": 1}, "violations": [], "cases": [], "samples": []}
        raise
    if spec:
        stats["chains_with_a_widened_enum_base_accepted_by_yardl"] = 1
    try:
        try:
            cm = C.CppModel(model.dir)
        except C.GeneratedCodeDoesNotCompile as e:
            stats["generated_cpp_did_not_compile(discarded)"] = 1
            return {"stats": stats, "violations": [], "cases": [], "samples": []}
        stats["chains"] = 1
        stats["versions"] = len(old_models)
        edits = [e for l in getattr(newest, "edit_log", []) for e in l]
        if any(e.startswith(("narrow_union", "widen_to_union")) for e in edits):
            stats["chains_with_a_union_narrowed_to_or_widened_from_a_single_type"] = 1
        if getattr(newest, "versions_from_git", False):
            stats["chains_whose_versions_are_commits_of_one_git_repository"] = 1
        if any(e.startswith("widen_alias") for e in edits):
            stats["chains_with_a_named_type_whose_definition_widened"] = 1
        if newest.find("EvoBox") is not None:
            stats["chains_with_generic_of_two_records"] = 1
            if any("EvoInner" in e for e in edits):
                stats["chains_editing_a_record_reachable_only_through_the_generic"] = 1
        for proto in model.protocols():
            run_modes(model, cm, old_models, proto, rng.fork(proto.name), stats, viols, task)
            cases.append((["c05", i, proto.name, len(old_models)], True))
    finally:
        model.close()
    seen, out = set(), []
    for rec, d in viols:
        k = (rec["class"], rec["mode"])
        if k not in seen:
            seen.add(k)
            out.append((rec, d))
    return {"stats": stats, "violations": out, "cases": cases, "samples": [{"model_index": i, "versions_as_listed": [l for l, _ in newest.versions], "edits_per_step": getattr(newest, "edit_log", [])}]}


def replay_doc(d, ybin, root):
    newest = sw.unpack_pkg(d["pkg"])
    model, old_models = open_models(newest, ybin, root)
    try:
        cm = C.CppModel(model.dir)
        proto = [p for p in model.protocols() if p.name == d["protocol"]][0]
        stats, viols = {}, []
        rng = M.derive(d["seed"], "c05", d["model_index"])
        make_chain(rng)   # advance the generator exactly as model_task does
        run_modes(model, cm, old_models, proto, rng.fork(proto.name), stats, viols, {"seed": d["seed"], "i": d["model_index"]}, only=(d["mode"], d["version"]))
        hit = [v for v, _ in viols if v["class"] == d["violation"]["class"]]
        return bool(hit), (viols[0][1]["detail"] if viols else "agrees with the reference conversion")
    finally:
        model.close()


def main():
    runner.run(PROP, "exploration", "checks.C05", quick_models=28, max_reject=0.6, thorough_budget=1800,
               rule=("one case = one protocol of one accepted version chain (1-3 predecessors, listed oldest-first, newest-first or shuffled in the manifest; protocols may first appear in a middle version; 1-4 documented edits per step: add/remove optional field, add/remove field, reorder "
                     "fields, widen int/float, T -> T?, add stream/vector/optional step, add definition, rename through an alias) x 3 seeded value workloads per predecessor x three "
                     "mixed-version pipelines (old stream -> new reader; new writer targeting the old version; old -> new -> old); chains yardl rejects are discarded and counted; 60% of the chains carry a generic record instantiated with two different records, mostly ones reachable only through it"),
               real_code="generated C++ for the newest package with `versions:` (compatibility serializers, per-version switches, VersionFromSchema) + shipped headers; old-version schemas from the generated code of the old packages",
               stubbed="C++ nd-array header and date/date.h; harness main emitted from the generated protocols.h",
               assumptions=["where the reference conversion says a runtime error is allowed (overflow, inexact narrowing, removed union case) neither an error nor a value is judged",
                            "conversions the documentation leaves open (number <-> string, float -> int rounding) are never generated"],
               replay_fn=replay_doc, quick_budget=160, fault_keys=("old_to_new", "new_to_old", "old_new_old", "reference_says_runtime_error_allowed", "reference_says_numeric_overflow", "chains_with_a_named_type_whose_definition_widened", "chains_whose_versions_are_commits_of_one_git_repository", "chains_with_a_union_narrowed_to_or_widened_from_a_single_type", "reference_says_zero_value_or_runtime_error"))


if __name__ == "__main__":
    main_guard(main)
