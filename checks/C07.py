#!/usr/bin/env python3
"""C07 — protocol step order is enforced by generated readers and writers.

Seeded API-call histories (legal ones and almost-legal ones: one call swapped, dropped, repeated,
retargeted, or a premature close) are executed against the generated Python classes (in-process) and
the generated C++ classes (script interpreter in the harness) and compared, call by call, with small
executable reference state machines written from docs/python/language.md and docs/cpp/language.md.
The implementation must accept every call before the first one the model rejects and raise on that
one; if the model accepts the whole history, so must the implementation.  Behaviour after the first
error is unspecified and not examined.  Readers are also run on inputs that end early.
"""
import os, sys, io, json, itertools
sys.path.insert(0, os.path.join(os.path.dirname(os.path.abspath(__file__)), ".."))
from common.checklib import main_guard
from gen import model as M, values as V, refcodec as R
from streamworld import sw, pynode as P, cppnode as C, runner

PROP = "C07"


# ------------------------------------------------------------------------------------------
# Workload: protocols covering stream / non-stream patterns
# ------------------------------------------------------------------------------------------

def patterns_for(i, rng, count):
    allp = []
    for n in range(1, 6):
        for bits in itertools.product([False, True], repeat=n):
            allp.append(list(bits))
    out = []
    for k in range(count):
        idx = (i * count + k)
        if idx < len(allp) * 2:
            out.append(allp[idx % len(allp)])
        else:
            n = rng.randint(6, 9)
            out.append([rng.chance(0.5) for _ in range(n)])
    return out


def snake(name):
    import re
    return re.sub(r"(?<=[a-z0-9])([A-Z])", lambda m: "_" + m.group(1).lower(), name).lower()


def make_package(i, rng, count):
    defs = []
    for k, pat in enumerate(patterns_for(i, rng, count)):
        steps = [("s%d" % j, M.Prim(rng.choice(["int32", "string", "uint8"])), st) for j, st in enumerate(pat)]
        defs.append(M.Protocol("Pat%d" % k, steps))
    lg = rng.fork("long")
    if lg.chance(0.25):
        # a protocol with more steps than a small counter can number (a device log with one step per channel, say): mostly plain
        # steps, a few streams
        n_ = lg.choice([lg.randint(126, 140), lg.randint(126, 140), lg.randint(250, 270)])
        defs.append(M.Protocol("PatLong", [("c%d" % j, M.Prim(lg.choice(["int32", "uint8"])), lg.chance(0.06)) for j in range(n_)]))
    pkg = M.Package("Sketch", "pkg", {"model.yml": defs})
    hv = rng.fork("history")
    if hv.chance(0.4):
        # the package has a history: in a previous version some of its protocols lacked one or two of their stream steps - steps
        # that were since inserted *in front of* steps that already existed (a compatible change for a stream step).  What the
        # generated API enforces is the order of the current model, whatever the tool worked out about older ones.
        import copy
        old = copy.deepcopy(pkg)
        changed = 0
        for d in old.files["model.yml"]:
            cands = [j for j, (_, _, st) in enumerate(d.steps[:-1]) if st]
            if cands and len(d.steps) > 1 and hv.chance(0.6):
                for j in sorted(hv.sample(cands, min(len(cands), hv.randint(1, 2))), reverse=True):
                    d.steps.pop(j)
                    changed += 1
        if changed:
            old.dirname, old.versions, old.targets = "pkg_v0", [], {}
            pkg.versions = [("v0", old)]
    return pkg


# ------------------------------------------------------------------------------------------
# Reference state machines.  Each returns the index of the first illegal op, or None.
# ------------------------------------------------------------------------------------------

def cpp_writer_model(streams, ops):
    n, cur = len(streams), 0
    for i, op in enumerate(ops):
        kind = op[0]
        if kind in ("W1", "WB"):
            k = op[1]
            if k != cur:
                return i
            if not streams[k]:
                cur += 1
        elif kind == "E":
            if op[1] != cur or not streams[cur]:
                return i
            cur += 1
        elif kind == "CT":
            # reader.CopyTo(writer): the writer's steps from the first to the last, in order - acceptable only to a writer
            # that has not got past its first step (more items for a first step that is a stream are in order)
            if cur != 0:
                return i
            cur = n
        elif kind == "CW":
            if cur != n:
                return i
            return None          # nothing after a successful Close() is part of the property
    return None


UNSPEC = "unspecified"


def cpp_reader_model(streams, counts, ops):
    """counts[k] = number of items in stream k of the input.  Returns (verdicts, expected returns):
    verdict per op is True (must be accepted), False (must raise) or UNSPEC (the documentation does not
    say: moving on from a stream whose items are all consumed but whose end was not yet reported by a
    read returning false / a short batch).  Judging stops at the first False verdict."""
    n, cur = len(streams), 0
    left = list(counts)
    pending_end = False       # a batch came back short: the caller knows the stream is over, `false` not yet returned
    verdicts, expect = [], []

    def can_leave():
        if cur >= n or not streams[cur]:
            return False
        if pending_end:
            return True
        return UNSPEC if left[cur] == 0 else False

    grace = None              # stream whose end was just reported by a batch read returning false
    for op in ops:
        kind = op[0]
        g, grace = grace, None
        if kind in ("R1", "RB") and g is not None and op[1] == g:
            # Reading the same stream once more right after a batch read reported its end: the generated
            # code keeps a "completion not yet observed" state there and answers false again; whether that
            # extra call is an error is not specified -> not judged.
            verdicts.append(UNSPEC); expect.append("end")
            continue
        if kind in ("R1", "RB"):
            k = op[1]
            if k == cur + 1 and cur < n and streams[cur]:
                v = can_leave()
                if v is False:
                    verdicts.append(False); expect.append(None)
                    return verdicts, expect
                leave_verdict = v
                cur += 1
                pending_end = False
            elif k == cur:
                leave_verdict = True
            else:
                verdicts.append(False); expect.append(None)
                return verdicts, expect
            if k >= n:
                verdicts.append(False); expect.append(None)
                return verdicts, expect
            if not streams[k]:
                cur += 1
                verdicts.append(leave_verdict); expect.append("ok")
                continue
            if kind == "R1":
                if pending_end or left[k] == 0:
                    pending_end = False
                    cur += 1
                    verdicts.append(leave_verdict); expect.append("end")
                else:
                    left[k] -= 1
                    verdicts.append(leave_verdict); expect.append("ok")
            else:
                cap = op[2]
                if pending_end:
                    pending_end = False
                    cur += 1
                    verdicts.append(leave_verdict); expect.append("end")
                    continue
                got = min(cap, left[k])
                left[k] -= got
                if got == 0:
                    cur += 1
                    grace = k
                    verdicts.append(leave_verdict); expect.append("end")
                else:
                    if got < cap:
                        pending_end = True
                    verdicts.append(leave_verdict); expect.append("ok")
        elif kind == "CR":
            if cur == n:
                verdicts.append(True); expect.append(None)
            elif cur == n - 1 and streams[cur]:
                v = can_leave()
                verdicts.append(v); expect.append(None)
                if v is False:
                    return verdicts, expect
                cur = n
            else:
                verdicts.append(False); expect.append(None)
                return verdicts, expect
            return verdicts, expect      # nothing after Close() is part of the property
    return verdicts, expect


def py_writer_model(streams, ops):
    n, cur, started = len(streams), 0, False
    for i, op in enumerate(ops):
        if op[0] == "W":
            k = op[1]
            if k == cur and (streams[k] or not started):
                if streams[k]:
                    started = True
                else:
                    cur += 1
            elif k == cur + 1 and started and k < n:
                cur = k
                started = False
                if streams[k]:
                    started = True
                else:
                    cur += 1
            else:
                return i
        elif op[0] == "C":
            if started and cur == n - 1:
                cur, started = n, False
            if cur != n or started:
                return i
            return None          # nothing after a successful close() is part of the property
    return None


def py_reader_model(streams, counts, ops, skip_completed_check=False):
    """ops: ("R", k) obtain value/iterable of step k; ("N", j) call next() j times on the current iterable;
    ("D",) drain it; ("C",) close.  An iterable is finished once next() has been called past its last item."""
    n, cur = len(streams), 0
    open_iter, left, dead = False, 0, False      # dead: the iterable was closed before it was drained
    for i, op in enumerate(ops):
        if op[0] == "R":
            if open_iter or op[1] != cur:
                return i
            if streams[cur]:
                open_iter, left, dead = True, counts[cur], False
            else:
                cur += 1
        elif op[0] == "D":
            if open_iter and not dead:
                open_iter = False
                cur += 1
        elif op[0] == "N":
            if open_iter and not dead:
                if op[1] > left:
                    open_iter = False
                    cur += 1
                else:
                    left -= op[1]
        elif op[0] == "A":
            # abandoning (closing / dropping) an iterable that was not drained does not complete the step,
            # and a closed generator yields nothing more
            if open_iter:
                dead = True
        elif op[0] == "C":
            # a reader constructed with skip_completed_check=True may be closed early; the order of reads is enforced all the same
            if (open_iter or cur != n) and not skip_completed_check:
                return i
            return None
    return None


# ------------------------------------------------------------------------------------------
# History generation
# ------------------------------------------------------------------------------------------

def until_close(ops):
    """Nothing after the first close call is part of the property."""
    for j, o in enumerate(ops):
        if o[0] in ("C", "CW", "CR"):
            return ops[:j + 1]
    return ops


def mutate(rng, ops, nsteps, make_op):
    ops, kind = _mutate(rng, ops, nsteps, make_op)
    return until_close(ops), kind


def _mutate(rng, ops, nsteps, make_op):
    ops = list(ops)
    kind = rng.weighted([("none", 3), ("swap", 2), ("drop", 2), ("dup", 2), ("retarget", 2), ("early_close", 2), ("insert", 1), ("back", 3)])
    if kind == "back":
        # go back: a call that was made for an earlier step is made again after a later step has been started
        # (at once, or after a few more calls of the later step)
        tgt = [o[1] if len(o) > 1 and isinstance(o[1], int) else None for o in ops]
        cands = [(a, b) for a in range(len(ops)) for b in range(a + 1, len(ops))
                 if tgt[a] is not None and tgt[b] is not None and tgt[b] > tgt[a]]
        if cands:
            a, b = rng.choice(cands)
            ops.insert(b + 1, list(ops[a]))
            return ops, kind
        kind = "none"
    if kind == "swap" and len(ops) >= 2:
        j = rng.randint(0, len(ops) - 2)
        ops[j], ops[j + 1] = ops[j + 1], ops[j]
    elif kind == "drop" and ops:
        del ops[rng.randrange(len(ops))]
    elif kind == "dup" and ops:
        j = rng.randrange(len(ops))
        ops.insert(j, ops[j])
    elif kind == "retarget" and ops:
        j = rng.randrange(len(ops))
        if len(ops[j]) > 1 and isinstance(ops[j][1], int):
            o = list(ops[j]); o[1] = rng.randrange(nsteps); ops[j] = o
    elif kind == "early_close" and ops:
        ops.insert(rng.randrange(len(ops)), ops[-1])
    elif kind == "insert":
        ops.insert(rng.randint(0, len(ops)), make_op(rng))
    return ops, kind


def guided(rng, draw, first_illegal, is_close, streams, maxlen=14, p_legal=0.85):
    """Model-guided random walk: most of the time the next call is one the reference model accepts in the state
    reached so far (so the walk gets deep into the protocol, through every way of ending a stream), now and then
    it is an arbitrary call; the history ends with the first call the model rejects or with a close call."""
    ops = []
    for _ in range(maxlen):
        cands = [near(rng, draw(rng), ops, streams) for _ in range(6)]
        legal = [c for c in cands if first_illegal(ops + [c]) is None]
        ops.append(rng.choice(legal) if legal and rng.chance(p_legal) else rng.choice(cands))
        if first_illegal(ops) is not None or is_close(ops[-1]):
            break
    return ops


def near(rng, op, ops, streams):
    """Three times out of four a drawn call is re-aimed at a step next to the one the history has reached (the last
    targeted step, one before or one or two after): out-of-order calls that matter are the near misses."""
    if len(op) < 2 or not isinstance(op[1], int) or not rng.chance(0.75):
        return op
    last = next((o[1] for o in reversed(ops) if len(o) > 1 and isinstance(o[1], int)), 0)
    op = list(op)
    op[1] = min(len(streams) - 1, max(0, last + rng.choice([-1, -1, 0, 0, 1, 1, 2])))
    if not streams[op[1]] and op[0] in ("RB", "WB", "E"):
        op = ["R1" if op[0] == "RB" else "W1", op[1]]      # a step that is not a stream has only the plain call
    return op


def guided_keep_going(rng, draw, first_illegal, is_close, streams, maxlen=16, p_legal=0.7):
    """A history that goes on after rejected calls.  Generated under the reading that a rejected call changes nothing:
    'legal' is always relative to the calls the reference model accepted so far.  Ends with the first close the model accepts."""
    ops, acc = [], []
    for _ in range(maxlen):
        cands = [near(rng, draw(rng), acc, streams) for _ in range(6)]
        legal = [c for c in cands if first_illegal(acc + [c]) is None]
        op = rng.choice(legal) if legal and rng.chance(p_legal) else rng.choice(cands)
        if rng.chance(0.15):
            op = [k for k in (["C"], ["CW"], ["CR"]) if is_close(k)][0]
        ops.append(op)
        if first_illegal(acc + [op]) is None:
            acc.append(op)
            if is_close(op):
                break
    return ops


def guided_failing(rng, draw, first_illegal, is_close, streams, maxlen=16, p_legal=0.8, p_fail=0.2):
    """A history in which some calls' *implementation* (the virtual <Step>Impl behind the public method) fails: as
    guided_keep_going, and a call marked as failing is taken to change nothing when the model would have accepted it -
    its step was not written / read.  Returns (ops, failing flags)."""
    ops, acc, failing = [], [], []
    for _ in range(maxlen):
        cands = [near(rng, draw(rng), acc, streams) for _ in range(6)]
        legal = [c for c in cands if first_illegal(acc + [c]) is None]
        op = rng.choice(legal) if legal and rng.chance(p_legal) else rng.choice(cands)
        if rng.chance(0.1):
            op = [k for k in (["C"], ["CW"], ["CR"]) if is_close(k)][0]
        fail = (not is_close(op)) and rng.chance(p_fail)
        ops.append(op)
        failing.append(fail)
        if first_illegal(acc + [op]) is None and not fail:
            acc.append(op)
            if is_close(op):
                break
    return ops, failing


def judge_keep_going(ops, outcomes, first_illegal, is_close, who):
    """outcomes[i]: True if call i returned normally, False if it raised.  Only 'must raise' is judged after the first
    rejection: a call the model rejects (relative to the calls that were accepted by model *and* implementation) must raise;
    a call the model accepts may be refused by an implementation that has seen an error before (not specified)."""
    acc = []
    for i, (op, ok) in enumerate(zip(ops, outcomes)):
        illegal = first_illegal(acc + [op]) is not None
        if illegal and ok:
            what = "Close()" if is_close(op) else "call"
            return "%s accepted %s #%d %s although it is out of order / steps are incomplete (calls accepted before: %s)" % (who, what, i, op, acc)
        if ok and not illegal:
            acc.append(op)
            if is_close(op):
                break
    return ""


CALLER = {"in_handler": False, "with_block": False}


def close_it(obj):
    """The close call of a history: close(), or - for callers that use the object as a context manager - leaving the
    `with` block normally."""
    if CALLER["with_block"]:
        obj.__exit__(None, None, None)
    else:
        obj.close()


def caller_context(fn):
    """The code that calls the generated classes may itself be recovery code: when CALLER['in_handler'] is set the whole
    history runs inside an `except` block of the caller (an exception that was caught is being handled, sys.exc_info() is
    set), as a retry or fallback path would."""
    def wrapped(*a, **k):
        if not CALLER["in_handler"]:
            return fn(*a, **k)
        try:
            raise LookupError("the caller is recovering from something unrelated")
        except LookupError:
            return fn(*a, **k)
    wrapped.__name__ = fn.__name__
    return wrapped


@caller_context
def run_py_keep_going(model, proto, api, pyvals, data, ops, fmt="binary"):
    """Executes every op, whatever the earlier ones did.  Returns [True (returned) | False (raised)]."""
    out = []
    if api == "writer":
        w = model.cls(proto, fmt, "Writer")(P.SimSink() if fmt == "binary" else io.StringIO())
        meths = model.step_methods(w, "write_")
        for op in ops:
            try:
                if op[0] == "W":
                    meths[op[1]](list(pyvals[op[1]]) if proto.steps[op[1]][2] else pyvals[op[1]])
                else:
                    close_it(w)
                out.append(True)
            except Exception:  # noqa
                out.append(False)
        return out
    r = model.cls(proto, fmt, "Reader")(io.BytesIO(data) if fmt == "binary" else io.StringIO(data.decode("utf-8")))
    meths = model.step_methods(r, "read_")
    it = None
    for op in ops:
        try:
            if op[0] == "R":
                v = meths[op[1]]()
                if proto.steps[op[1]][2]:
                    it = iter(v)
            elif op[0] == "N":
                if it is not None:
                    for _ in range(op[1]):
                        next(it, None)
            elif op[0] == "D":
                if it is not None:
                    for _ in it:
                        pass
                    it = None
            elif op[0] == "A":
                if it is not None and hasattr(it, "close"):
                    it.close()
            else:
                close_it(r)
            out.append(True)
        except Exception:  # noqa
            out.append(False)
    return out


def cpp_reader_first_illegal(streams, counts):
    def f(ops):
        verdicts, _ = cpp_reader_model(streams, counts, ops)
        for j, v in enumerate(verdicts):
            if v is False:
                return j
        return None
    return f


def draw_cpp_reader(streams):
    n = len(streams)
    def d(r):
        if r.chance(0.12):
            return ["CR"]
        k = r.randrange(n)
        if streams[k] and r.chance(0.5):
            return ["RB", k, r.choice([1, 2, 3, 5])]
        return ["R1", k]
    return d


def draw_cpp_writer(streams, ct=False):
    n = len(streams)
    def d(r):
        if ct and r.chance(0.1):
            return ["CT"] if r.chance(0.5) else ["CT", r.choice([2, 3, 64])]
        if r.chance(0.12):
            return ["CW"]
        k = r.randrange(n)
        if streams[k]:
            return r.choice([["W1", k], ["WB", k, r.randint(0, 3)], ["E", k], ["E", k]])
        return ["W1", k]
    return d


def draw_py_writer(streams):
    n = len(streams)
    return lambda r: ["C"] if r.chance(0.12) else ["W", r.randrange(n)]


def draw_py_reader(streams):
    n = len(streams)
    def d(r):
        x = r.random()
        if x < 0.1:
            return ["C"]
        if x < 0.55:
            return ["R", r.randrange(n)]
        if x < 0.75:
            return ["D"]
        if x < 0.9:
            return ["N", r.randint(0, 3)]
        return ["A"]
    return d


def legal_cpp_writer(rng, streams):
    ops = []
    if rng.fork("copyto").chance(0.15):
        # the whole protocol in one CopyTo, possibly after a few items of a first step that is a stream
        if streams[0]:
            ops += [["W1", 0]] * rng.fork("copyto").randint(0, 2)
        return ops + [["CT"], ["CW"]]
    for k, s in enumerate(streams):
        if not s:
            ops.append(["W1", k])
        else:
            for _ in range(rng.randint(0, 3)):
                ops.append(["W1", k] if rng.chance(0.5) else ["WB", k, rng.randint(0, 3)])
            ops.append(["E", k])
    ops.append(["CW"])
    return ops


def legal_cpp_reader(rng, streams, counts):
    ops = []
    for k, s in enumerate(streams):
        if not s:
            ops.append(["R1", k])
            continue
        left = counts[k]
        while True:
            if rng.chance(0.5):
                ops.append(["R1", k])
                if left == 0:
                    break
                left -= 1
            else:
                cap = rng.randint(1, 3)
                ops.append(["RB", k, cap])
                got = min(cap, left)
                left -= got
                if got < cap:
                    if rng.chance(0.5):
                        ops.append(["R1", k] if rng.chance(0.5) else ["RB", k, 2])
                    break
    ops.append(["CR"])
    return ops


def legal_py_writer(rng, streams):
    ops = []
    for k, s in enumerate(streams):
        for _ in range(rng.randint(1, 3) if s else 1):
            ops.append(["W", k])
    ops.append(["C"])
    return ops


def legal_py_reader(rng, streams):
    ops = []
    for k, s in enumerate(streams):
        ops.append(["R", k])
        if s:
            if rng.chance(0.5):
                ops.append(["N", rng.randint(0, 2)])
            if rng.chance(0.25):
                ops.append(["A"])          # abandon instead of draining: the step is then NOT complete
            else:
                ops.append(["D"])
    ops.append(["C"])
    return ops


# ------------------------------------------------------------------------------------------
# Execution
# ------------------------------------------------------------------------------------------

@caller_context
def run_py_writer(model, proto, pyvals, ops, fmt="binary"):
    """Returns index of the first op that raised (None if none) and the exception."""
    sink = P.SimSink()
    try:
        w = model.cls(proto, fmt, "Writer")(sink if fmt == "binary" else io.StringIO())
    except Exception as e:  # noqa
        return -1, e
    meths = model.step_methods(w, "write_")
    for i, op in enumerate(ops):
        try:
            if op[0] == "W":
                k = op[1]
                v = pyvals[k]
                meths[k](list(v) if proto.steps[k][2] else v)
            else:
                close_it(w)
        except Exception as e:  # noqa
            return i, e
    return None, None


class Poison:
    """A value no serializer can write: the generated writer's implementation call raises on it."""


@caller_context
def run_py_writer_with_failed_call(model, proto, pyvals, ops, fmt="binary"):
    """ops as for run_py_writer plus ["WP", k] (write step k with a value that makes the *implementation* raise) and
    ["W?", k] (a write that may be refused).  Returns (status, detail, acknowledged [(k, n_items or None)], bytes):
    status 'ok' | 'poison_did_not_raise' | 'rejected_later' (a later call was refused: not judged) | 'closed'."""
    sink = P.SimSink() if fmt == "binary" else io.StringIO()
    w = model.cls(proto, fmt, "Writer")(sink)
    meths = model.step_methods(w, "write_")
    acked = []
    for i, op in enumerate(ops):
        try:
            if op[0] in ("W", "W?"):
                k = op[1]
                v = pyvals[k]
                meths[k](list(v) if proto.steps[k][2] else v)
                acked.append(k)
            elif op[0] == "WP":
                try:
                    meths[op[1]](Poison())
                except Exception as e:  # noqa
                    if type(e).__name__ == "ProtocolError":
                        return "rejected_later", "poisoned call refused by the state machine", acked, b""
                    continue
                return "poison_did_not_raise", "", acked, b""
            else:
                close_it(w)
        except Exception as e:  # noqa
            if op[0] == "W?":
                continue                 # refusing to go back is what the step order demands
            return "rejected_later", "call #%d %s raised %r" % (i, op, e), acked, b""
    out = bytes(sink.buf) if fmt == "binary" else sink.getvalue().encode("utf-8")
    return "closed", "", acked, out


@caller_context
def run_py_reader(model, proto, data, ops, fmt="binary", skip_completed_check=False):
    try:
        src = io.BytesIO(data) if fmt == "binary" else io.StringIO(data.decode("utf-8"))
        r = model.cls(proto, fmt, "Reader")(src, skip_completed_check=True) if skip_completed_check else model.cls(proto, fmt, "Reader")(src)
    except Exception as e:  # noqa
        return -1, e
    meths = model.step_methods(r, "read_")
    it = None
    for i, op in enumerate(ops):
        try:
            if op[0] == "R":
                v = meths[op[1]]()
                if proto.steps[op[1]][2]:
                    it = iter(v)
            elif op[0] == "N":
                if it is not None:
                    for _ in range(op[1]):
                        next(it, None)
            elif op[0] == "D":
                if it is not None:
                    for _ in it:
                        pass
                    it = None
            elif op[0] == "A":
                # what `break` out of a for loop / del / garbage collection do to the generator
                if it is not None and hasattr(it, "close"):
                    it.close()
            else:
                close_it(r)
        except Exception as e:  # noqa
            return i, e
    return None, None


def judge(expected, got, exc, ops, who):
    """'' if implementation and model agree."""
    if expected == got:
        return ""
    if expected is None:
        return "%s raised at call #%d %s (%r) although the history is legal" % (who, got, ops[got] if got is not None and got >= 0 else "ctor", exc)
    if got is None:
        return "%s accepted the whole history although call #%d %s is out of order" % (who, expected, ops[expected])
    if got < expected:
        return "%s raised at call #%d %s (%r); the first out-of-order call is #%d %s" % (who, got, ops[got] if got >= 0 else "ctor", exc, expected, ops[expected])
    return "%s accepted out-of-order call #%d %s and raised only at #%d" % (who, expected, ops[expected], got)


def judge_verdicts(verdicts, expect, calls, ops, who):
    """Tri-state judgement for the C++ reader. Returns (class, description) or (None, '')."""
    for j, v in enumerate(verdicts):
        if j >= len(calls):
            return None, ""
        c = calls[j]
        raised = c["r"] == "exc"
        if v is True and raised:
            return "legal_history_rejected", "%s raised at call #%d %s (%s) although the history is legal up to there" % (who, j, ops[j], c.get("what"))
        if v is False:
            if not raised:
                return "step_order_not_enforced", "%s accepted out-of-order call #%d %s" % (who, j, ops[j])
            return None, ""
        if v == UNSPEC and raised:
            return None, ""
        if not raised and expect[j] is not None and c["r"] != expect[j]:
            return "wrong_return_value", "%s call #%d %s returned %s, the reference model says %s" % (
                who, j, ops[j], "true" if c["r"] == "ok" else "false", "true" if expect[j] == "ok" else "false")
    return None, ""


def doc(model, proto, ctx, api, ops, counts, detail):
    return {"kind": "c07", "pkg": sw.pack_pkg(model.pkg), "files": M.render_tree(model.pkg, ""), "protocol": proto.name, "api": api, "ops": ops,
            "counts": counts, "detail": detail[:500], "seed": ctx["seed"], "model_index": ctx["i"],
            "caller_in_handler": bool(CALLER["in_handler"]) and api.startswith("python"),
            "caller_uses_with_block": bool(CALLER["with_block"]) and api.startswith("python")}


def model_task(task, ybin, root):
    seed, i, quick = task["seed"], task["i"], task["tier"] == "quick"
    rng = M.derive(seed, "c07", i)
    want_cpp = (i % 2 == 0)
    pkg = make_package(i, rng.fork("pkg"), 12 if want_cpp else 16)
    model = P.PyModel(pkg, ybin, root, want_cpp=want_cpp, cpp_opts=C.CPP_OPTS)
    stats, viols, cases = {"models_with_cpp": 1 if want_cpp else 0}, [], []
    try:
        cm = None
        if want_cpp:
            try:
                cm = C.CppModel(model.dir)
            except C.GeneratedCodeDoesNotCompile:
                stats["generated_cpp_did_not_compile(discarded)"] = 1
        env, ns = model.env, pkg.namespace
        codec = R.Codec(env)
        H = 12 if quick else 40
        if pkg.versions:
            stats["models_with_a_previous_version(steps inserted since)"] = 1
        # the generated Python API has one step method per declared step, in the declared order, under the declared name
        # (a protocol for which it has not cannot be driven through call histories: it is reported and left at that)
        api_broken = set()
        for proto in model.protocols():
            for fmt in ("binary", "ndjson"):
                for side, prefix in (("Writer", "write_"), ("Reader", "read_")):
                    got = [m.__name__ for m in model.step_methods(model.cls(proto, fmt, side).__new__(model.cls(proto, fmt, side)), prefix)]
                    want = [prefix + snake(n) for n, _, _ in proto.steps]
                    if got != want:
                        api_broken.add(proto.name)
                        viols.append(({"class": "generated_api_does_not_follow_the_declared_steps", "api": "python_" + side.lower(), "format": fmt},
                                      doc(model, proto, {"seed": seed, "i": i}, "python_" + side.lower(), [], [], "declared %r, generated %r" % (want, got))))
        for proto in model.protocols():
            if proto.name in api_broken:
                continue
            streams = [s for _, _, s in proto.steps]
            n = len(streams)
            pr = rng.fork(proto.name)
            vals = sw.gen_values(env, ns, proto, pr, items=(0, 3))
            counts = [len(v) if s else 0 for v, s in zip(vals, streams)]
            data = codec.encode_stream(proto, ns, model.schema(proto), vals)
            pyvals = P.read_python_values(model, proto, data)
            ndraw = codec.encode_ndjson(proto, ns, model.schema(proto), vals).encode("utf-8")
            # ---- python writer / reader
            for h in range(H):
                hr = pr.fork("pw", h)
                CALLER["in_handler"] = hr.fork("caller").chance(0.3)
                CALLER["with_block"] = hr.fork("withblock").chance(0.3)
                stats["py_histories_run_inside_an_exception_handler"] = stats.get("py_histories_run_inside_an_exception_handler", 0) + (1 if CALLER["in_handler"] else 0)
                if h % 2 == 1:
                    ops, mk = until_close(guided(hr, draw_py_writer(streams), lambda o: py_writer_model(streams, o), lambda o: o[0] == "C", streams)), "guided"
                else:
                    ops, mk = mutate(hr, legal_py_writer(hr, streams), n, lambda r: ["W", r.randrange(n)] if r.chance(0.8) else ["C"])
                exp = py_writer_model(streams, ops)
                pfmt = "ndjson" if hr.fork("fmt").chance(0.35) else "binary"       # the state machine lives in the base classes: every format has to obey it
                stats["py_histories_" + pfmt] = stats.get("py_histories_" + pfmt, 0) + 2
                got, exc = run_py_writer(model, proto, pyvals, ops, pfmt)
                stats["runs"] = stats.get("runs", 0) + 1
                stats["py_writer_" + ("legal" if exp is None else "illegal")] = stats.get("py_writer_" + ("legal" if exp is None else "illegal"), 0) + 1
                stats["mut_" + mk] = stats.get("mut_" + mk, 0) + 1
                why = judge(exp, got, exc, ops, "python writer")
                if why:
                    viols.append(({"class": "step_order_not_enforced" if (exp is not None and (got is None or got > exp)) else "legal_history_rejected", "api": "python_writer"},
                                  dict(doc(model, proto, task, "python_writer", ops, counts, why), format=pfmt)))
                skipc = hr.fork("skipc").chance(0.3)       # the reader's constructor option: close() does not insist on completeness
                if skipc:
                    stats["py_reader_skip_completed_check"] = stats.get("py_reader_skip_completed_check", 0) + 1
                if h % 2 == 1:
                    ops, mk2 = until_close(guided(hr.fork("r"), draw_py_reader(streams), lambda o: py_reader_model(streams, counts, o, skipc), lambda o: o[0] == "C", streams)), "guided"
                else:
                    ops, mk2 = mutate(hr.fork("r"), legal_py_reader(hr.fork("r"), streams), n, lambda r: ["R", r.randrange(n)] if r.chance(0.6) else (["D"] if r.chance(0.4) else (["A"] if r.chance(0.5) else ["C"])))
                stats["mut_" + mk2] = stats.get("mut_" + mk2, 0) + 1
                exp = py_reader_model(streams, counts, ops, skipc)
                got, exc = run_py_reader(model, proto, data if pfmt == "binary" else ndraw, ops, pfmt, skipc)
                stats["runs"] += 1
                stats["py_reader_" + ("legal" if exp is None else "illegal")] = stats.get("py_reader_" + ("legal" if exp is None else "illegal"), 0) + 1
                why = judge(exp, got, exc, ops, "python reader")
                if why:
                    viols.append(({"class": "step_order_not_enforced" if (exp is not None and (got is None or got > exp)) else "legal_history_rejected", "api": "python_reader"},
                                  dict(doc(model, proto, task, "python_reader", ops, counts, why), format=pfmt, skip_completed_check=skipc)))
            # a call whose *implementation* fails (a value that cannot be serialized) in the middle of a legal history;
            # the caller then tries to go back to the stream before it, retries with a good value and completes the
            # protocol.  Whatever the writer makes of the failed call: if it lets the history run to a successful
            # close(), the bytes it produced must be a well-formed stream of exactly the acknowledged writes.
            plain = [k for k, st in enumerate(streams) if not st]
            for h in range((3 if quick else 10) if plain else 0):
                hr = pr.fork("failcall", h)
                CALLER["in_handler"] = hr.fork("caller").chance(0.3)
                CALLER["with_block"] = hr.fork("withblock").chance(0.3)
                stats["py_histories_run_inside_an_exception_handler"] = stats.get("py_histories_run_inside_an_exception_handler", 0) + (1 if CALLER["in_handler"] else 0)
                k = hr.choice(plain)
                ops = []
                for j, st in enumerate(streams):
                    if j == k:
                        ops.append(["WP", j])
                        if j > 0 and streams[j - 1] and hr.chance(0.7):
                            ops.append(["W?", j - 1])
                        if hr.chance(0.3):
                            ops.append(["WP", j])
                    for _ in range(hr.randint(1, 2) if st else 1):
                        ops.append(["W", j])
                ops.append(["C"])
                status, detail, acked, out = run_py_writer_with_failed_call(model, proto, pyvals, ops)
                stats["runs"] += 1
                stats["py_writer_failed_impl_call"] = stats.get("py_writer_failed_impl_call", 0) + 1
                stats["py_failed_call_" + status] = stats.get("py_failed_call_" + status, 0) + 1
                if status != "closed":
                    continue
                want = [[] if st else None for st in streams]
                for j in acked:
                    if streams[j]:
                        want[j] = want[j] + list(vals[j])
                    else:
                        want[j] = vals[j]
                try:
                    got, _, _ = codec.decode_stream(proto, ns, out, model.schema(proto))
                    why = sw.flat_equal(env, ns, proto, sw.flat_values(proto, want), sw.flat_values(proto, got))
                except (R.Truncated, R.Malformed) as e:
                    why = "the stream written does not decode: %r" % (e,)
                if why:
                    viols.append(({"class": "stream_corrupt_after_failed_call", "api": "python_writer"}, doc(model, proto, task, "python_writer_failed_call", ops, counts, why)))
            # a writer that is closed twice (an explicit close() inside a `with` block, a close() in a finally clause after one in
            # the body): the second call finds every step completed - whatever it does, the stream that the first one completed
            # must stay the stream of the values written
            for h in range(2 if quick else 6):
                hr = pr.fork("closetwice", h)
                CALLER["in_handler"], CALLER["with_block"] = False, False
                ops = legal_py_writer(hr, streams)
                st1, _, _, out1 = run_py_writer_with_failed_call(model, proto, pyvals, ops)
                st2, det2, _, out2 = run_py_writer_with_failed_call(model, proto, pyvals, ops + [["C"]])
                stats["runs"] += 2
                stats["py_writer_closed_twice"] = stats.get("py_writer_closed_twice", 0) + 1
                if st1 == "closed" and st2 == "closed" and out2 != out1:
                    viols.append(({"class": "second_close_changes_the_completed_stream", "api": "python_writer"},
                                  doc(model, proto, task, "python_writer_closed_twice", ops + [["C"]], counts, "%d bytes after one close(), %d after two" % (len(out1), len(out2)))))
            # histories that go on after a rejected call: whatever was refused before, an out-of-order call and a close() with
            # steps missing must still raise
            for h in range(4 if quick else 12):
                hr = pr.fork("keepgoing", h)
                CALLER["in_handler"] = hr.fork("caller").chance(0.3)
                CALLER["with_block"] = hr.fork("withblock").chance(0.3)
                stats["py_histories_run_inside_an_exception_handler"] = stats.get("py_histories_run_inside_an_exception_handler", 0) + (1 if CALLER["in_handler"] else 0)
                kfmt = "ndjson" if hr.chance(0.3) else "binary"
                ops = guided_keep_going(hr, draw_py_writer(streams), lambda o: py_writer_model(streams, o), lambda o: o[0] == "C", streams)
                outc = run_py_keep_going(model, proto, "writer", pyvals, None, ops, kfmt)
                stats["runs"] += 1
                stats["py_history_continued_after_rejection"] = stats.get("py_history_continued_after_rejection", 0) + 1
                why = judge_keep_going(ops, outc, lambda o: py_writer_model(streams, o), lambda o: o[0] == "C", "python writer")
                if why:
                    viols.append(({"class": "step_order_not_enforced_after_rejection", "api": "python_writer"}, dict(doc(model, proto, task, "python_writer_keep_going", ops, counts, why), format=kfmt)))
                ops = guided_keep_going(hr.fork("r"), draw_py_reader(streams), lambda o: py_reader_model(streams, counts, o), lambda o: o[0] == "C", streams)
                outc = run_py_keep_going(model, proto, "reader", None, data if kfmt == "binary" else ndraw, ops, kfmt)
                stats["runs"] += 1
                stats["py_history_continued_after_rejection"] += 1
                why = judge_keep_going(ops, outc, lambda o: py_reader_model(streams, counts, o), lambda o: o[0] == "C", "python reader")
                if why:
                    viols.append(({"class": "step_order_not_enforced_after_rejection", "api": "python_reader"}, dict(doc(model, proto, task, "python_reader_keep_going", ops, counts, why), format=kfmt)))
            # reader on an input that ends early: some call must raise
            for h in range(2 if quick else 8):
                hr = pr.fork("cut", h)
                CALLER["in_handler"] = hr.fork("caller").chance(0.3)
                CALLER["with_block"] = hr.fork("withblock").chance(0.3)
                stats["py_histories_run_inside_an_exception_handler"] = stats.get("py_histories_run_inside_an_exception_handler", 0) + (1 if CALLER["in_handler"] else 0)
                hdr = len(data) - len(codec.encode_stream(proto, ns, "", vals)) + 10   # start of the values region
                if hdr >= len(data):
                    continue
                cut = hr.randint(hdr, len(data) - 1)
                ops = legal_py_reader(hr, streams)
                got, exc = run_py_reader(model, proto, data[:cut], ops)
                stats["runs"] += 1
                stats["py_reader_early_eof"] = stats.get("py_reader_early_eof", 0) + 1
                if got is None:
                    viols.append(({"class": "reader_completed_on_truncated_input", "api": "python_reader"}, doc(model, proto, task, "python_reader_cut", ops, counts, "cut at %d of %d" % (cut, len(data)))))
            # ---- C++ writer / reader scripts
            if cm is not None:
                runs, meta = [], []
                steps = cm.protos[proto.name]
                for h in range(H * 4):          # C++ histories cost microseconds each inside one harness process
                    hr = pr.fork("cw", h)
                    if h % 2 == 1:
                        ops, mk = until_close(guided(hr, draw_cpp_writer(streams, ct=True), lambda o: cpp_writer_model(streams, o), lambda o: o[0] == "CW", streams)), "guided"
                    else:
                        ops, mk = mutate(hr, legal_cpp_writer(hr, streams), n, lambda r: (["W1", r.randrange(n)] if r.chance(0.6) else (["E", r.randrange(n)] if r.chance(0.5) else (["CW"] if r.chance(0.6) else ["CT"]))))
                    stats["mut_" + mk] = stats.get("mut_" + mk, 0) + 1
                    ops = [o for o in ops if not (o[0] in ("WB", "E") and not streams[o[1]])]   # the harness has no batch/End call for non-stream steps
                    exp = cpp_writer_model(streams, ops)
                    if any(o[0] == "CT" for o in ops):
                        kk = "cpp_writer_histories_with_a_CopyTo_into_the_writer" + ("" if ops[0][0] == "CT" else "(not in its initial state)")
                        stats[kk] = stats.get(kk, 0) + 1
                    cfmt = "ndjson" if hr.fork("fmt").chance(0.35) else "binary"
                    stats["cpp_histories_" + cfmt] = stats.get("cpp_histories_" + cfmt, 0) + 2
                    runs.append({"proto": proto.name, "op": "script", "input": 0, "script": [["mkW", cfmt]] + ops, "fmt": cfmt})
                    meta.append(("cpp_writer", ops, exp, None))
                    if h % 2 == 1:
                        ops, mk = until_close(guided(hr.fork("r"), draw_cpp_reader(streams), cpp_reader_first_illegal(streams, counts), lambda o: o[0] == "CR", streams)), "guided"
                    else:
                        ops, mk = mutate(hr.fork("r"), legal_cpp_reader(hr.fork("r"), streams, counts), n, lambda r: (["R1", r.randrange(n)] if r.chance(0.7) else ["CR"]))
                    stats["mut_" + mk] = stats.get("mut_" + mk, 0) + 1
                    ops = [o for o in ops if not (o[0] == "RB" and not streams[o[1]])]
                    verdicts, expect = cpp_reader_model(streams, counts, ops)
                    runs.append({"proto": proto.name, "op": "script", "input": 0 if cfmt == "binary" else 1, "script": [["mkR", cfmt]] + ops, "fmt": cfmt})
                    meta.append(("cpp_reader", ops, verdicts, expect))
                for h in range(8 if quick else 30):
                    hr = pr.fork("ckeep", h)
                    cfmt = "ndjson" if hr.chance(0.3) else "binary"
                    ops = guided_keep_going(hr, draw_cpp_writer(streams, ct=True), lambda o: cpp_writer_model(streams, o), lambda o: o[0] == "CW", streams)
                    ops = [o for o in ops if not (o[0] in ("WB", "E") and not streams[o[1]])]
                    runs.append({"proto": proto.name, "op": "script", "input": 0, "script": [["mkW", cfmt]] + ops, "fmt": cfmt, "keep_going": True})
                    meta.append(("cpp_writer_keep_going", ops, None, None))
                    ops = guided_keep_going(hr.fork("r"), draw_cpp_reader(streams), cpp_reader_first_illegal(streams, counts), lambda o: o[0] == "CR", streams)
                    ops = [o for o in ops if not (o[0] == "RB" and not streams[o[1]])]
                    runs.append({"proto": proto.name, "op": "script", "input": 0 if cfmt == "binary" else 1, "script": [["mkR", cfmt]] + ops, "fmt": cfmt, "keep_going": True})
                    meta.append(("cpp_reader_keep_going", ops, None, None))
                for h in range(6 if quick else 24):
                    # implementation calls that fail (fault points in front of every <Step>Impl of the binary writer / reader)
                    hr = pr.fork("cfail", h)
                    for api_, draw_, model_, close_, mk_, inp_ in (("cpp_writer_failing_impl", draw_cpp_writer(streams), lambda o: cpp_writer_model(streams, o), "CW", "mkW", 0),
                                                                ("cpp_reader_failing_impl", draw_cpp_reader(streams), cpp_reader_first_illegal(streams, counts), "CR", "mkR", 0)):
                        ops, failing = guided_failing(hr.fork(api_), draw_, model_, lambda o, c=close_: o[0] == c, streams)
                        keep = [j for j, o in enumerate(ops) if not (o[0] in ("WB", "E", "RB") and not streams[o[1]])]
                        ops, failing = [ops[j] for j in keep], [failing[j] for j in keep]
                        script = [[mk_, "faulty"]]
                        for o, f in zip(ops, failing):
                            script += ([["ARM"], o, ["DISARM"]] if f else [o])
                        runs.append({"proto": proto.name, "op": "script", "input": inp_, "script": script, "fmt": "binary", "keep_going": True})
                        meta.append((api_, ops, failing, None))
                results = cm.run_plan([data, ndraw], runs, timeout=180)
                for res, run_, (api, ops, exp, expect) in zip(results, runs, meta):
                    stats["runs"] += 1
                    legal = True if (api.endswith("_keep_going") or api.endswith("_failing_impl")) else ((exp is None) if api == "cpp_writer" else all(v is not False for v in exp))
                    stats[api + ("_legal" if legal else "_illegal")] = stats.get(api + ("_legal" if legal else "_illegal"), 0) + 1
                    if api == "cpp_reader" and any(v == UNSPEC for v in exp):  # noqa
                        stats["cpp_reader_unspecified_transition(not judged)"] = stats.get("cpp_reader_unspecified_transition(not judged)", 0) + 1
                    if res is None:
                        continue
                    if res.get("crashed"):
                        viols.append(({"class": "crashed_on_call_history", "api": api}, dict(doc(model, proto, task, api, ops, counts, res.get("stderr", "")[-300:]), format=run_["fmt"])))
                        continue
                    calls = res.get("calls", [])[1:]     # drop the constructor call
                    if api.endswith("_failing_impl"):
                        failing = exp
                        stats["cpp_histories_with_failing_implementation_calls"] = stats.get("cpp_histories_with_failing_implementation_calls", 0) + 1
                        script = run_["script"][1:]
                        if len(calls) != len(script):
                            continue                     # (the harness stopped early: nothing to judge)
                        outc = [c["r"] != "exc" for c, sc in zip(calls, script) if sc[0] not in ("ARM", "DISARM")]
                        injected = sum(1 for c in calls if "injected failure" in str(c.get("what", "")))
                        stats["implementation_call_failures_injected"] = stats.get("implementation_call_failures_injected", 0) + injected
                        if api == "cpp_writer_failing_impl":
                            why = judge_keep_going(ops, outc, lambda o: cpp_writer_model(streams, o), lambda o: o[0] == "CW", "cpp writer")
                        else:
                            why = judge_keep_going(ops, outc, cpp_reader_first_illegal(streams, counts), lambda o: o[0] == "CR", "cpp reader")
                        if why:
                            viols.append(({"class": "step_counted_as_completed_although_its_implementation_failed", "api": api},
                                          dict(doc(model, proto, task, api, ops, counts, why + " | failing calls: %s" % [j for j, f in enumerate(failing) if f]), format="binary", failing=failing)))
                        continue
                    if api.endswith("_keep_going"):
                        stats["cpp_history_continued_after_rejection"] = stats.get("cpp_history_continued_after_rejection", 0) + 1
                        outc = [c["r"] != "exc" for c in calls]
                        if api == "cpp_writer_keep_going":
                            why = judge_keep_going(ops, outc, lambda o: cpp_writer_model(streams, o), lambda o: o[0] == "CW", "cpp writer")
                        else:
                            why = judge_keep_going(ops, outc, cpp_reader_first_illegal(streams, counts), lambda o: o[0] == "CR", "cpp reader")
                        if why:
                            viols.append(({"class": "step_order_not_enforced_after_rejection", "api": api}, dict(doc(model, proto, task, api, ops, counts, why), format=run_["fmt"])))
                        continue
                    if api == "cpp_writer":
                        got = next((j for j, c in enumerate(calls) if c["r"] == "exc"), None)
                        exc = calls[got].get("what") if got is not None else None
                        if not res.get("ok") and got is None:
                            got, exc = -1, res.get("what")
                        why = judge(exp, got, exc, ops, "cpp writer")
                        cls = "step_order_not_enforced" if (exp is not None and (got is None or got > exp)) else "legal_history_rejected"
                    else:
                        cls, why = judge_verdicts(exp, expect, calls, ops, "cpp reader")
                    if why:
                        viols.append(({"class": cls, "api": api}, dict(doc(model, proto, task, api, ops, counts, why), format=run_["fmt"])))
            cases.append((["c07", i, proto.name, "".join("S" if s else "v" for s in streams)], True))
    finally:
        model.close()
    seen, out = set(), []
    for rec, d in viols:
        k = (rec["class"], rec["api"])
        if k not in seen:
            seen.add(k)
            out.append((rec, d))
    return {"stats": stats, "violations": out, "cases": cases,
            "samples": [{"model_index": i, "patterns": ["".join("S" if s else "v" for _, _, s in p.steps) for p in model.protocols()][:8], "cpp": want_cpp}]}


def replay_doc(d, ybin, root):
    CALLER["in_handler"] = bool(d.get("caller_in_handler"))
    CALLER["with_block"] = bool(d.get("caller_uses_with_block"))
    pkg = sw.unpack_pkg(d["pkg"])
    api = d["api"]
    want_cpp = api.startswith("cpp")
    model = P.PyModel(pkg, ybin, root, want_cpp=want_cpp, cpp_opts=C.CPP_OPTS)
    try:
        proto = [p for p in model.protocols() if p.name == d["protocol"]][0]
        if d["violation"]["class"] == "generated_api_does_not_follow_the_declared_steps":
            side, prefix = ("Writer", "write_") if d["api"] == "python_writer" else ("Reader", "read_")
            cls_ = model.cls(proto, d["violation"].get("format", "binary"), side)
            got = [m.__name__ for m in model.step_methods(cls_.__new__(cls_), prefix)]
            want = [prefix + snake(n) for n, _, _ in proto.steps]
            return got != want, "declared %r, generated %r" % (want, got)
        streams = [s for _, _, s in proto.steps]
        env, ns = model.env, pkg.namespace
        codec = R.Codec(env)
        rng = M.derive(d["seed"], "c07", d["model_index"]).fork(proto.name)
        vals = sw.gen_values(env, ns, proto, rng, items=(0, 3))
        counts = [len(v) if s else 0 for v, s in zip(vals, streams)]
        data = codec.encode_stream(proto, ns, model.schema(proto), vals)
        ops = d["ops"]
        if api == "python_writer":
            pyvals = P.read_python_values(model, proto, data)
            exp = py_writer_model(streams, ops)
            got, exc = run_py_writer(model, proto, pyvals, ops, d.get("format", "binary"))
            why = judge(exp, got, exc, ops, "python writer")
            return bool(why), why
        if api == "python_reader":
            exp = py_reader_model(streams, counts, ops)
            rfmt = d.get("format", "binary")
            exp = py_reader_model(streams, counts, ops, d.get("skip_completed_check", False))
            got, exc = run_py_reader(model, proto, data if rfmt == "binary" else codec.encode_ndjson(proto, ns, model.schema(proto), vals).encode("utf-8"), ops, rfmt, d.get("skip_completed_check", False))
            why = judge(exp, got, exc, ops, "python reader")
            return bool(why), why
        if api == "python_reader_cut":
            return False, "re-run by the check itself"
        if api == "python_writer_closed_twice":
            pyvals = P.read_python_values(model, proto, data)
            _, _, _, out1 = run_py_writer_with_failed_call(model, proto, pyvals, ops[:-1])
            st2, _, _, out2 = run_py_writer_with_failed_call(model, proto, pyvals, ops)
            return (st2 == "closed" and out2 != out1), "%d bytes after one close(), %d after two" % (len(out1), len(out2))
        if api == "python_writer_failed_call":
            pyvals = P.read_python_values(model, proto, data)
            status, detail, acked, out = run_py_writer_with_failed_call(model, proto, pyvals, ops)
            if status != "closed":
                return False, "history did not run to a successful close: %s %s" % (status, detail)
            want = [[] if st else None for st in streams]
            for j in acked:
                want[j] = (want[j] + list(vals[j])) if streams[j] else vals[j]
            try:
                got, _, _ = codec.decode_stream(proto, ns, out, model.schema(proto))
                why = sw.flat_equal(env, ns, proto, sw.flat_values(proto, want), sw.flat_values(proto, got))
            except (R.Truncated, R.Malformed) as e:
                why = "the stream written does not decode: %r" % (e,)
            return bool(why), why or "stream is well formed"
        cm = C.CppModel(model.dir)
        if api.endswith("_keep_going") or api.endswith("_failing_impl"):
            writer = api.startswith("cpp_writer")
            failing = d.get("failing") or [False] * len(ops)
            fmt_ = "faulty" if api.endswith("_failing_impl") else d.get("format", "binary")
            script = [["mkW" if writer else "mkR", fmt_]]
            for o, f in zip(ops, failing):
                script += ([["ARM"], o, ["DISARM"]] if f else [o])
            ndraw = codec.encode_ndjson(proto, ns, model.schema(proto), vals).encode("utf-8")
            res = cm.run_plan([data, ndraw], [{"proto": proto.name, "op": "script", "input": 1 if (fmt_ == "ndjson" and not writer) else 0, "script": script, "keep_going": True}])[0]
            calls = res.get("calls", [])[1:]
            outc = [c["r"] != "exc" for c, sc in zip(calls, script[1:]) if sc[0] not in ("ARM", "DISARM")]
            if writer:
                why = judge_keep_going(ops, outc, lambda o: cpp_writer_model(streams, o), lambda o: o[0] == "CW", "cpp writer")
            else:
                why = judge_keep_going(ops, outc, cpp_reader_first_illegal(streams, counts), lambda o: o[0] == "CR", "cpp reader")
            return bool(why), why or "agrees with the model"
        if api == "cpp_writer":
            exp = cpp_writer_model(streams, ops)
            script = [["mkW", d.get("format", "binary")]] + ops
        else:
            verdicts, expect = cpp_reader_model(streams, counts, ops)
            script = [["mkR", d.get("format", "binary")]] + ops
        ndraw = codec.encode_ndjson(proto, ns, model.schema(proto), vals).encode("utf-8")
        res = cm.run_plan([data, ndraw], [{"proto": proto.name, "op": "script", "input": 0 if d.get("format", "binary") == "binary" else 1, "script": script}])[0]
        calls = res.get("calls", [])[1:]
        if api == "cpp_writer":
            got = next((j for j, c in enumerate(calls) if c["r"] == "exc"), None)
            why = judge(exp, got, calls[got].get("what") if got is not None else None, ops, api)
        else:
            _, why = judge_verdicts(verdicts, expect, calls, ops, "cpp reader")
        return bool(why), why or "agrees with the model"
    finally:
        model.close()


def main():
    runner.run(PROP, "exploration", "checks.C07", quick_models=12, thorough_budget=1500,
               rule=("one case = one protocol (all 62 stream/non-stream patterns of length 1-5 are covered across models, longer random ones beyond) x seeded API-call histories: "
                     "a legal history with at most one mutation (swap, drop, duplicate, retarget, premature close, insert) for the python writer, python reader (obtain / partially "
                     "consume / drain / close), C++ writer (Write, batch Write, End, Close) and C++ reader (single and batch reads, Close), each judged call by call against the "
                     "reference state machine; plus readers on inputs that end early; distinct = (model, protocol, pattern)"),
               real_code="generated <P>WriterBase/<P>ReaderBase state machines and binary readers/writers in Python and C++",
               stubbed="C++ harness script interpreter (emitted from the generated protocols.h) supplies default-constructed values for writes",
               assumptions=["a C++ stream step is left when its end has been observed: a single read returned false or a batch read came back short of its capacity",
                            "python: every step needs at least one write call; a stream's iterable must be drained before the next read; close() ends a trailing stream"],
               replay_fn=replay_doc, quick_budget=140,
               fault_keys=("py_reader_early_eof", "py_writer_failed_impl_call", "py_history_continued_after_rejection", "py_histories_run_inside_an_exception_handler", "cpp_history_continued_after_rejection", "cpp_histories_with_failing_implementation_calls", "implementation_call_failures_injected", "cpp_reader_early_eof", "mut_swap", "mut_drop", "mut_dup", "mut_retarget", "mut_early_close", "mut_insert", "mut_back", "mut_guided", "mut_none"))


if __name__ == "__main__":
    main_guard(main)
