#!/usr/bin/env python3
"""C11 — generation is all-or-nothing with respect to validation.

The real `yardl generate` runs inside the simulated OS; every disk operation of the whole run is
recorded as a history.  For packages invalid by construction the command must exit non-zero and
the history must contain no mutation under any configured output directory; with injected read
faults (EIO/EACCES/ENOENT on model files, manifests, imported directories) the same must hold
whenever the command reports an error.
"""
import os, sys, json, copy
sys.path.insert(0, os.path.join(os.path.dirname(os.path.abspath(__file__)), ".."))
from common.checklib import Check, parse_args, main_guard
from gen import model as M, edits as E
from toolworld import tw

PROP = "C11"
LOCATIONS = ["main", "import", "version", "evolution", "manifest", "graph", "version_import", "deleted_file", "deleted_file"]


def out_dirs(pkg, root="/w"):
    """Absolute output directories configured by the main package."""
    base = root + "/" + pkg.dirname
    outs = []
    for tgt, opts in pkg.targets.items():
        rel = opts[M.TARGET_KEYS[tgt]]
        outs.append(os.path.normpath(base + "/" + rel))
    return outs


class extra_seed(dict):
    """A view for add_clutter: looks like the rendered tree, collects what is added in a separate dict."""
    def __init__(self, base, sink):
        super().__init__(base)
        self.sink = sink

    def __setitem__(self, k, v):
        self.sink[k] = v
        super().__setitem__(k, v)


def make_case(seed, i):
    rng = M.derive(seed, "c11", i)
    cfg = M.GenConfig.swarm(rng.fork("cfg"))
    loc = rng.choice(LOCATIONS)
    if loc in ("import", "graph", "version_import") and cfg.imports == 0:
        cfg.imports = rng.randint(1, 2)
    lookalike = loc in ("main", "version") and rng.fork("lookalike").chance(0.3)
    if lookalike:
        cfg.imports = max(cfg.imports, 2)       # two imported namespaces that define a type of the same name (below)
    targets = [t for t in ("cpp", "python", "json", "matlab") if rng.chance(0.6)] or ["json"]
    cfg.odd_namespaces = True
    pkg = M.gen_package(rng.next(), cfg, targets=targets)
    M.randomize_target_options(pkg, rng.fork("options"), p=0.3)
    sh = rng.fork("sharedname")
    if len(pkg.imports) >= 2 and (lookalike or sh.chance(0.6)):
        # the same type name in two imported packages (each namespace has its own)
        nm = "Common%s" % sh.choice(M.WORDS).capitalize()
        for k_, imp_ in enumerate(pkg.imports[:2]):
            imp_.files[sorted(imp_.files)[0]].append(M.Record(nm, (), [("f%d" % k_, M.Prim(sh.choice(["int32", "string"])))]))
    # output directory placement: sibling tree or inside the package directory
    for t in targets:
        if rng.chance(0.25):
            pkg.targets[t][M.TARGET_KEYS[t]] = "generated/" + t
    if loc in ("version", "evolution", "version_import") or rng.chance(0.3):
        # previous versions next to the package, or archived snapshots of the whole tree (own copies of the imports)
        layout = "archive" if loc == "version_import" else rng.fork("layout").choice(["siblings", "archive"])
        pkg = E.with_versions(pkg, rng.fork("v"), rng.randint(1, 2), partial=rng.chance(0.5), layout=layout)
    desc = {"i": i, "location": loc, "targets": targets, "imports": len(pkg.imports), "versions": len(pkg.versions)}
    valid_files = M.render_tree(pkg, "/w")
    files, what = None, None
    r2 = rng.fork("inv")
    if loc == "main":
        files, what = E.invalidate(valid_files, "/w/pkg", r2, "generic_given_one_type_twice" if lookalike else r2.choice(["yaml_syntax", "duplicate_type", "unknown_type", "bad_field_name", "stream_in_record"] + E.RULE_KINDS))
    elif loc == "manifest":
        files, what = E.invalidate(valid_files, "/w/pkg", r2, r2.choice(["unknown_manifest_key", "missing_namespace", "dup_version_label"]))
    elif loc == "import" and pkg.imports:
        imp = r2.choice(pkg.all_packages()[:-1])
        files, what = E.invalidate(valid_files, "/w/" + imp.dirname, r2, r2.choice(["yaml_syntax", "yaml_syntax", "duplicate_type", "unknown_type", "bad_field_name", "unknown_manifest_key", "missing_namespace"] + E.RULE_KINDS))
    elif loc == "version" and pkg.versions:
        _, v = r2.choice(pkg.versions)
        files, what = E.invalidate(valid_files, "/w/" + v.dirname, r2, "generic_given_one_type_twice" if lookalike else r2.choice(["yaml_syntax", "duplicate_type", "unknown_type", "bad_field_name"] + E.RULE_KINDS))
    elif loc == "version_import" and pkg.versions:
        # the only error is in a package that a previous version imports (its own archived copy of it)
        _, v = r2.choice(pkg.versions)
        vimps = v.all_packages()[:-1]
        if vimps:
            imp = r2.choice(vimps)
            files, what = E.invalidate(valid_files, "/w/" + imp.dirname, r2, r2.choice(["yaml_syntax", "duplicate_type", "unknown_type", "bad_field_name"] + E.RULE_KINDS))
    elif loc == "evolution" and pkg.versions:
        p2 = copy.deepcopy(pkg)
        _, v = r2.choice(p2.versions)
        protos = [d for d in v.defs() if isinstance(d, M.Protocol) and p2.find(d.name) is not None]
        if protos:
            pr = r2.choice(protos)
            pr.steps.insert(0, ("removedLater", M.Prim("int32"), False))
            files, what = M.render_tree(p2, "/w"), "previous version %s has a leading step of %s that the current version removed" % (v.dirname, pr.name)
    elif loc == "deleted_file":
        # a model file disappears (git checkout of another branch, an rm, a move): a type it defined is still referenced from
        # another file.  No remaining file is changed - nothing on disk is newer than it was.
        import re
        mfs = sorted(p for p in valid_files if p.endswith((".yml", ".yaml")) and not p.endswith("/_package.yml"))
        r2.shuffle(mfs)
        for f_ in mfs:
            names = re.findall(r"^([A-Z][A-Za-z0-9]*)(?:<[^>]*>)?:", valid_files[f_], re.M)
            hit = None
            for nme in names:
                for g_ in mfs:
                    if g_ != f_ and re.search(r"(?<![A-Za-z0-9_.])%s(?![A-Za-z0-9_])" % re.escape(nme), re.sub(r"^%s(?:<[^>]*>)?:" % re.escape(nme), "", valid_files[g_], flags=re.M)) \
                            and g_.rsplit("/", 1)[0] == f_.rsplit("/", 1)[0]:
                        hit = (nme, g_)
                        break
                if hit:
                    break
            if hit:
                files = {p: c for p, c in valid_files.items() if p != f_}
                what = "deleted %s, which defines %s, still referenced in %s" % (f_, hit[0], hit[1])
                break
    elif loc == "graph" and pkg.imports:
        kind = r2.choice(["cycle", "ns_conflict", "missing_import"])
        files = dict(valid_files)
        imp = pkg.imports[0]
        man = "/w/%s/_package.yml" % imp.dirname
        if kind == "cycle":
            text = files[man]
            if "imports:" in text:
                text = text.replace("imports:\n", "imports:\n  - ../pkg\n", 1)
            else:
                text = text.replace("\n", "\nimports:\n  - ../pkg\n", 1)
            files[man] = text
            what = "import cycle pkg -> %s -> pkg" % imp.dirname
        elif kind == "ns_conflict":
            # (the second directory's name: a different one, or the same one in another letter case)
            copy_name = imp.dirname + "_copy" if r2.chance(0.5) else imp.dirname.capitalize()
            for p, t in list(files.items()):
                if p.startswith("/w/%s/" % imp.dirname):
                    files[p.replace("/w/%s/" % imp.dirname, "/w/%s/" % copy_name)] = t
            files["/w/pkg/_package.yml"] = files["/w/pkg/_package.yml"].replace("imports:\n", "imports:\n  - ../%s\n" % copy_name, 1)
            what = "namespace %s claimed by two directories" % imp.namespace
        else:
            files["/w/pkg/_package.yml"] = files["/w/pkg/_package.yml"].replace("imports:\n", "imports:\n  - ../no_such_dir\n", 1)
            what = "import of a missing directory"
    # the model file that holds the invalidation consists of several YAML documents (`---`), and the invalidation is not in the
    # last one: a second document with one more definition follows it (in the valid original too)
    md = rng.fork("multidoc")
    if files is not None and md.chance(0.25):
        hit_ = sorted(p for p in files if p.endswith((".yml", ".yaml")) and not p.endswith("/_package.yml") and p in valid_files and files[p] != valid_files[p])
        if hit_:
            extra_ = "\n---\nZqSecondDocument%d: !record\n  fields:\n    v: int\n    w: string\n" % md.randint(10, 99)
            valid_files = dict(valid_files)
            for p in hit_:
                files[p] = files[p].rstrip("\n") + extra_
                valid_files[p] = valid_files[p].rstrip("\n") + extra_
            what = (what or "") + " [the file has a second YAML document after the one with the error]"
            desc["error_in_a_document_that_is_not_the_last_of_its_file"] = True
    # directory names that differ from another package directory's in letter case only (pkg / Pkg, imp_core / Imp_core): on a
    # case-sensitive file system they are different directories
    cv = rng.fork("casevariant")
    if files is not None and cv.chance(0.4):
        changed = sorted({p.rsplit("/", 1)[0] for p in set(files) | set(valid_files) if files.get(p) != valid_files.get(p)})
        vdirs = [d for d in changed if d.startswith("/w/pkg_v") and d.count("/") == 2]
        if vdirs and "/w/Pkg/_package.yml" not in valid_files:
            old_dir = vdirs[0]

            def mv(fs):
                out = {}
                for p, c in fs.items():
                    q = "/w/Pkg" + p[len(old_dir):] if (p == old_dir or p.startswith(old_dir + "/")) else p
                    out[q] = c.replace("../" + old_dir.rsplit("/", 1)[1], "../Pkg") if p.endswith("/_package.yml") else c
                return out
            valid_files, files = mv(valid_files), mv(files)
            what = (what or "") + " [the version lives in ../Pkg, next to the package's own directory pkg]"
            desc["case_variant_directory"] = "Pkg"
    # the directory that holds the invalidation is reached through a symbolic link: the package's own directory (the command is
    # started in the link) or a referenced one (manifests name the link)
    sl = rng.fork("symlink")
    if files is not None and sl.chance(0.3):
        changed = sorted({"/".join(p.split("/")[:3]) for p in set(files) | set(valid_files) if files.get(p) != valid_files.get(p)})
        changed = [d for d in changed if (d + "/_package.yml") in valid_files]
        if changed:
            d = sl.choice(changed)
            name = d.rsplit("/", 1)[1]
            desc["links"] = {d + "_link": d}
            desc["reached_through_symlink"] = name
            if d == "/w/pkg":
                desc["cwd"] = "/w/pkg_link"
            else:
                import re as _re
                rx = _re.compile(r"\.\./" + _re.escape(name) + r"(?![\w-])")

                def relink(fs):
                    return {p: (rx.sub("../" + name + "_link", c) if p.endswith("/_package.yml") else c) for p, c in fs.items()}
                valid_files, files = relink(valid_files), relink(files)
            what = (what or "") + " [%s is reached through the symbolic link %s_link]" % (name, name)
    desc["invalidation"] = what
    # what else package directories hold: hidden files, documentation, editor settings (the same in both trees)
    cl = rng.fork("clutter")
    extra = {}
    desc["other_files_in_package_dirs"] = len(M.add_clutter(extra_seed(valid_files, extra), cl))
    for q, t in extra.items():
        valid_files.setdefault(q, t)
        if files is not None and any(f.startswith(q.rsplit("/", 1)[0].split("/.")[0].split("/docs")[0] + "/") for f in files):
            files.setdefault(q, t)
    return desc, pkg, valid_files, files


def mutations_under(ops, dirs):
    return [o for o in ops if o.get("mut") and any(o["path"].split(" -> ")[0].startswith(d + "/") or o["path"] == d for d in dirs)]


def run_case(sim, seed, i):
    desc, pkg, valid_files, files = make_case(seed, i)
    outs = out_dirs(pkg)
    stats = {"desc": desc, "runs": 0, "skipped": None}
    viols = []
    rng = M.derive(seed, "c11run", i)
    ms = rng.next() % (1 << 31) + 1
    # the valid original must generate (positive control, and source of the pre-populated output)
    good = sim.run(tw.oneshot_spec(valid_files, desc.get("cwd", "/w/pkg"), links=desc.get("links") or {}), mapseed=ms)
    stats["runs"] += 1
    if not (good.get("status") == "returned" and good.get("exit_code") == 0):
        stats["skipped"] = "generator_rejected"
        # whatever made the command fail on the package as generated (a rule this workload generator does not know, an error
        # that only a code generator notices): it failed, so it must not have written anything either
        if good.get("status") in ("returned", "exited") and good.get("ops") is not None:
            muts = mutations_under(good["ops"], outs)
            if muts:
                viols.append(({"class": "output_touched_despite_error", "location": "as_generated", "first": (muts[0]["op"] + " " + muts[0]["path"]).replace("/w/", "")[:160]},
                              {"mode": "invalid", "files": valid_files, "pre_files": {}, "pre_dirs": [], "outs": outs, "mapseed": ms, "seed": seed, "case": desc, "expect": "untouched"}))
        return stats, viols
    stats["valid_original_wrote"] = len(mutations_under(good["ops"], outs))
    prepopulate = rng.chance(0.6)
    desc["prepopulated"] = prepopulate
    pre_files, pre_dirs = {}, []
    if prepopulate:
        src = good
        pr = rng.fork("pre")
        if pr.chance(0.45):
            # what is on disk comes from an *earlier state* of the package: it then also imported a package (namespace
            # Legacy) that it no longer refers to, so the output directories hold files the current package does not produce
            earlier = dict(valid_files)
            earlier["/w/imp_legacy/_package.yml"] = "namespace: Legacy\n"
            earlier["/w/imp_legacy/legacy.yml"] = "LegacyRec: !record\n  fields:\n    id: int\n    label: string\n\nLegacyEnum: !enum\n  values:\n    - one\n    - two\n"
            man = earlier["/w/pkg/_package.yml"]
            if "imports:\n" in man:
                man = man.replace("imports:\n", "imports:\n  - ../imp_legacy\n", 1)
            else:
                man = man.replace("\n", "\nimports:\n  - ../imp_legacy\n", 1)
            earlier["/w/pkg/_package.yml"] = man
            mf = E.model_files(earlier, "/w/pkg")
            if mf:
                earlier[mf[0]] = earlier[mf[0]] + "\nUsesLegacy: !record\n  fields:\n    old: Legacy.LegacyRec\n"
            old = sim.run(tw.oneshot_spec(earlier, desc.get("cwd", "/w/pkg"), links=desc.get("links") or {}), mapseed=ms)
            stats["runs"] += 1
            if old.get("status") == "returned" and old.get("exit_code") == 0:
                src = old
                desc["prepopulated_by_earlier_state"] = True
        pre_files = {p: c for p, c in tw.tree_files(src["tree"]).items() if any(p.startswith(d + "/") for d in outs)}
        pre_dirs = [p for p in tw.tree_dirs(src["tree"]) if any(p == d or p.startswith(d + "/") for d in outs)]
        if pr.chance(0.4):
            # files of the user's own in and below the output directories
            for d in outs:
                pre_files[d + "/NOTES.txt"] = "my notes\n"
                sub = sorted(q for q in pre_dirs if q.startswith(d + "/"))
                if sub:
                    pre_files[pr.choice(sub) + "/local_helpers.py"] = "# not generated\n"
            desc["user_files_in_output_dirs"] = True

    last_mt = {}

    def execute(fs, faults=None):
        init = dict(fs)
        init.update(pre_files)
        # when things were last written: the model files an hour ago, the output (if any) half an hour ago by the run that
        # generated it, and what an invalidation changed or added just now
        mt = {}
        for p_ in init:
            if p_ in pre_files:
                mt[p_] = -1800
            elif valid_files.get(p_) != init[p_]:
                mt[p_] = -60
            else:
                mt[p_] = -3600
        last_mt.clear()
        last_mt.update(mt)
        spec = tw.oneshot_spec(init, desc.get("cwd", "/w/pkg"), dirs=pre_dirs, faults=faults or [], mtimes=mt, links=desc.get("links") or {})
        stats["runs"] += 1
        return sim.run(spec, mapseed=ms), init

    def judge(res, init, must_fail, ctx):
        if res.get("status") == "process_died":
            # a Go panic is an error exit; output must still be untouched, but the op log died with it
            return None
        failed = res["exit_code"] != 0 or res["status"] != "returned"
        muts = mutations_under(res["ops"], outs)
        before = {p: c for p, c in init.items() if any(p.startswith(d + "/") for d in outs)}
        after = {p: c for p, c in tw.tree_files(res["tree"]).items() if any(p.startswith(d + "/") for d in outs)}
        if must_fail and not failed:
            return ({"class": "invalid_package_accepted", "location": desc["location"], "wrote": len(muts) > 0},
                    dict(ctx, expect="fail", mtimes=dict(last_mt)))
        said_error = any(l.lstrip().startswith(("\x1b[31mERR", "ERR ", "\x1b[31mFTL", "FTL ", "\x1b[31mPNC", "PNC ")) for l in (res.get("stderr") or "").split("\n"))
        if said_error and not failed and (muts or before != after):
            # the tool itself reported an error (an ERR line of its own log) and went on to write output with exit status 0
            w = (muts[0]["op"] + " " + muts[0]["path"]) if muts else "tree differs"
            err_line = next(l for l in res["stderr"].split("\n") if "ERR" in l or "FTL" in l or "PNC" in l)
            return ({"class": "error_reported_but_output_written", "location": ctx.get("location", desc["location"]), "first": w.replace("/w/", "")[:120]},
                    dict(ctx, expect="fail", error_line=err_line[:300], mtimes=dict(last_mt)))
        if failed and (muts or before != after):
            w = (muts[0]["op"] + " " + muts[0]["path"]) if muts else "tree differs"
            return ({"class": "output_touched_despite_error", "location": ctx.get("location", desc["location"]), "first": w.replace("/w/", "")[:160]},
                    dict(ctx, expect="untouched", mtimes=dict(last_mt)))
        return None

    # (a) invalid by construction
    if files is not None:
        res, init = execute(files)
        stats["invalid_exit"] = res.get("exit_code")
        v = judge(res, init, True, {"mode": "invalid", "files": files, "pre_files": pre_files, "pre_dirs": pre_dirs, "outs": outs, "mapseed": ms, "seed": seed, "case": desc})
        if v:
            viols.append(v)
    else:
        stats["skipped"] = "invalidation_not_applicable"
    # (b) read faults on the valid package
    inputs = sorted(p for p in valid_files)
    for j in range(3):
        fr = rng.fork("fault", j)
        target = fr.choice(inputs)
        op = fr.choice(["open", "read", "stat", "readdir", "lstat", "open"])
        if op in ("readdir", "stat", "lstat"):
            target = target.rsplit("/", 1)[0] if fr.chance(0.6) else target
        fault = {"op": op, "path": target, "nth": fr.randint(1, 2), "errno": fr.choice(["EIO", "EACCES", "ENOENT"]), "exact": True}
        res, init = execute(valid_files, [fault])
        fired = any(f.get("fired") for f in (res.get("faults") or []))
        stats["faults_fired"] = stats.get("faults_fired", 0) + (1 if fired else 0)
        if res.get("status") == "process_died":
            stats["died"] = stats.get("died", 0) + 1
            continue
        if fired and res.get("exit_code") == 0 and res.get("status") == "returned":
            stats["fault_absorbed"] = stats.get("fault_absorbed", 0) + 1
        if fired and res.get("exit_code") != 0:
            stats["fault_reported"] = stats.get("fault_reported", 0) + 1
            firstmut = next((o["seq"] for o in res["ops"] if o.get("mut")), None)
            ffault = next((o["seq"] for o in res["ops"] if o.get("fault")), None)
            if firstmut is None or (ffault is not None and ffault < firstmut):
                stats["fault_before_first_write"] = stats.get("fault_before_first_write", 0) + 1
        v = judge(res, init, False, {"mode": "fault", "files": valid_files, "pre_files": pre_files, "pre_dirs": pre_dirs, "outs": outs,
                                     "faults": [fault], "mapseed": ms, "seed": seed, "case": desc, "location": "read_fault"})
        if v:
            viols.append(v)
    # (d) command-line overrides of manifest keys on the valid package (`--config key=value`, applied after the manifest was read
    # and checked): whatever the override makes of the package, a run that ends in an error must not have written anything
    tk = [(t, M.TARGET_KEYS[t]) for t in ("cpp", "python", "json", "matlab") if t in desc["targets"]]
    for j in range(1 if tk else 0):
        cr = rng.fork("override", j)
        t, key = cr.choice(tk)
        ov = cr.choice(["%s.%s=" % (t, key), "%s.%s=" % (t, key), "%s.noSuchOption=1" % t, "namespace="])
        spec = tw.oneshot_spec(valid_files, desc.get("cwd", "/w/pkg"), args=("generate", "--config", ov), links=desc.get("links") or {})
        res = sim.run(spec, mapseed=ms)
        stats["runs"] += 1
        stats["runs_with_a_config_override"] = stats.get("runs_with_a_config_override", 0) + 1
        if res.get("status") == "process_died":
            continue
        if res.get("exit_code") != 0:
            stats["config_override_led_to_an_error"] = stats.get("config_override_led_to_an_error", 0) + 1
        v = judge(res, dict(valid_files), False, {"mode": "override", "files": valid_files, "pre_files": {}, "pre_dirs": [], "outs": outs, "args": ["generate", "--config", ov],
                                                   "mapseed": ms, "seed": seed, "case": desc, "location": "config_override"})
        if v:
            viols.append(v)
    # (c) write faults on the valid package, generated into empty output directories: an error while writing is an error
    # too - the exit status must say so (that nothing was modified cannot be asked of a run that fails half-way through)
    wops = [o for o in mutations_under(good["ops"], outs) if o["op"] in ("write", "mkdirall", "mkdir", "rename", "chmod", "symlink")]   # (not "open": the first open of an output file is the read that decides whether it needs writing, and failing to read it is legitimately absorbed)
    for j in range(2 if wops else 0):
        fr = rng.fork("wfault", j)
        o = fr.choice(wops)
        fault = {"op": o["op"], "path": o["path"].split(" -> ")[-1], "exact": True, "nth": 1, "errno": fr.choice(["ENOSPC", "EIO", "EACCES"])}
        res = sim.run(tw.oneshot_spec(valid_files, desc.get("cwd", "/w/pkg"), faults=[fault], links=desc.get("links") or {}), mapseed=ms)
        stats["runs"] += 1
        fired = any(f.get("fired") for f in (res.get("faults") or []))
        if not fired or res.get("status") == "process_died":
            continue
        stats["write_faults_fired"] = stats.get("write_faults_fired", 0) + 1
        if res.get("exit_code") == 0 and res.get("status") == "returned":
            fp = fault["path"]
            viols.append(({"class": "write_error_not_reported", "op": fault["op"], "target": next((t for t in ("matlab", "python", "cpp", "json") if t in fp), "?")},
                          {"mode": "wfault", "files": valid_files, "pre_files": {}, "pre_dirs": [], "outs": outs, "faults": [fault], "mapseed": ms, "seed": seed, "case": desc,
                           "failed_op": "%s %s" % (fault["op"], fp)}))
    return stats, viols


def watch_case(sim, seed, i):
    """`yardl generate --watch` as the process that must not write: a C20 workload (edits, schedule, faults) in which a file
    with a syntax error appears in a directory the package reads and stays while other files are saved; judged here is only
    that no regeneration started after that save touches the disk."""
    import importlib
    W = importlib.import_module("checks.C20")
    doc = W.make_case(M.derive(seed, "c11watch", i).next() % (1 << 40), i, force_end="unfinished_file" if i % 3 else "invalid_from_start")
    viol, st = W.execute(sim, doc)
    out = []
    if viol is not None and viol.get("class") == "output_written_while_package_invalid":
        out.append(({"class": "output_written_while_package_invalid_in_watch_mode", "first": viol.get("first")}, dict(doc, kind="watch")))
    return st, out


def replay(sim, doc):
    if doc.get("kind") == "watch":
        import importlib
        W = importlib.import_module("checks.C20")
        viol, _ = W.execute(sim, doc)
        hit = viol is not None and viol.get("class") == "output_written_while_package_invalid"
        return hit, str(viol)
    init = dict(doc["files"])
    init.update(doc.get("pre_files", {}))
    case = doc.get("case") or {}
    res = sim.run(tw.oneshot_spec(init, case.get("cwd", "/w/pkg"), dirs=doc.get("pre_dirs", []), faults=doc.get("faults", []), mtimes=doc.get("mtimes") or {}, links=case.get("links") or {},
                                  **({"args": doc["args"]} if doc.get("args") else {})), mapseed=doc["mapseed"])
    if res.get("status") == "process_died":
        return False, "process died: " + res.get("stderr_tail", "")[-300:]
    failed = res["exit_code"] != 0 or res["status"] != "returned"
    muts = mutations_under(res["ops"], doc["outs"])
    if doc["violation"]["class"] == "write_error_not_reported":
        fired = any(f.get("fired") for f in (res.get("faults") or []))
        return (fired and not failed), "exit=%s fault_fired=%s" % (res["exit_code"], fired)
    if doc["violation"]["class"] == "error_reported_but_output_written":
        said = any(l.lstrip().startswith(("\x1b[31mERR", "ERR ", "\x1b[31mFTL", "FTL ", "\x1b[31mPNC", "PNC ")) for l in (res.get("stderr") or "").split("\n"))
        return (said and not failed and bool(muts)), "exit=%s mutations=%d error_reported=%s" % (res["exit_code"], len(muts), said)
    if doc["violation"]["class"] == "invalid_package_accepted":
        return (not failed), "exit=%s mutations=%d" % (res["exit_code"], len(muts))
    return failed and bool(muts), "exit=%s mutations=%d first=%s" % (res["exit_code"], len(muts), muts[:1])


def minimise(sim, rec, doc):
    """Drop files that are not needed for the violation (whole imported/version directories last)."""
    cur = dict(doc)
    cur["violation"] = rec
    def still(d):
        try:
            return replay(sim, d)[0]
        except Exception:
            return False
    if cur.get("pre_files"):
        cand = dict(cur, pre_files={}, pre_dirs=[])
        if still(cand):
            cur = cand
    man = "/w/pkg/_package.yml"
    for section in ("matlab:", "cpp:", "python:"):
        text = cur["files"].get(man, "")
        if section in text:
            out, skip = [], False
            for l in text.split("\n"):
                if l.startswith(section):
                    skip = True
                    continue
                if skip and l.startswith("  "):
                    continue
                skip = False
                out.append(l)
            cand = dict(cur, files=dict(cur["files"], **{man: "\n".join(out)}))
            if still(cand):
                cur = cand
    cur.pop("violation", None)
    return cur


def main():
    args = parse_args(PROP)
    check = Check(PROP, "exploration", args)
    sim = tw.Sim(args.repo)
    if args.replay:
        doc = json.load(open(args.replay))
        ok, detail = replay(sim, doc)
        print("replay: violation %s: %s" % ("reproduced" if ok else "NOT reproduced", detail))
        if ok:
            print("VIOLATION property=%s replay=%s" % (PROP, args.replay))
        sys.exit(1 if ok else 0)
    quick = args.tier == "quick"
    budget = check.budget(60, 1500)
    max_cases = 400 if quick else 1000000
    totals = {"runs": 0, "generator_rejected": 0, "invalid_cases": 0, "faults_fired": 0, "fault_absorbed": 0, "fault_reported": 0,
              "fault_before_first_write": 0, "prepopulated": 0, "process_died": 0, "write_faults_fired": 0, "runs_with_a_config_override": 0, "config_override_led_to_an_error": 0}
    matrix = {}
    i = 0
    while i < max_cases and check.elapsed() < budget:
        idx = list(range(i, min(i + 48, max_cases)))
        i += len(idx)
        for stats, viols in sim.map(idx, lambda c: run_case(sim, args.seed, c)):
            d = stats["desc"]
            totals["runs"] += stats["runs"]
            if stats["skipped"] == "generator_rejected":
                totals["generator_rejected"] += 1
                for rec, doc in viols:          # (it failed on the package as generated and wrote all the same)
                    check.report(rec, doc)
                continue
            for k in ("faults_fired", "fault_absorbed", "fault_reported", "fault_before_first_write", "write_faults_fired", "runs_with_a_config_override", "config_override_led_to_an_error"):
                totals[k] += stats.get(k, 0)
            totals["process_died"] += stats.get("died", 0)
            totals["prepopulated"] += 1 if d.get("prepopulated") else 0
            if d.get("invalidation"):
                totals["invalid_cases"] += 1
                key = "%s|%s" % (d["location"], d["invalidation"].split(" in ")[0].split(" /")[0][:40])
                matrix[key] = matrix.get(key, 0) + 1
            check.note_case(("c11", d["i"], d["location"]), nontrivial=bool(d.get("invalidation")) or stats.get("faults_fired", 0) > 0)
            check.sample({"case": d, "executions": stats["runs"], "invalid_run_exit_code": stats.get("invalid_exit")})
            for rec, doc in viols:
                if check.findings.match(PROP, rec) is None and len(check.violations) < 3:
                    doc = minimise(sim, rec, doc)
                check.report(rec, doc)
        if len(check.violations) >= 3:
            break
    # watch mode: the same command as a long-lived process
    totals["watch_cases"] = totals["watch_regenerations_started_while_invalid"] = 0
    j = 0
    max_watch = 96 if quick else 4000
    wbudget = check.elapsed() + (30 if quick else 400)
    while j < max_watch and check.elapsed() < wbudget and len(check.violations) < 3:
        idx = list(range(j, min(j + 48, max_watch)))
        j += len(idx)
        for st, viols in sim.map(idx, lambda c: watch_case(sim, args.seed, c)):
            totals["runs"] += st.get("runs", 1)
            totals["watch_cases"] += 1
            totals["watch_regenerations_started_while_invalid"] += st.get("regenerations_started_while_invalid_for_good", 0)
            for rec, doc in viols:
                check.report(rec, doc)
    wall = check.elapsed()
    check.coverage["rule"] = ("one case = one generated valid package (random targets, output dirs beside or inside the package, with/without imports and "
                              "previous versions, output pre-populated or empty) + one certainly-invalid change at a seeded location, executed once, plus 3 "
                              "executions of the valid package with one injected read fault each; non-trivial = an invalidation applied or a fault fired")
    check.extra["simulation"] = {
        "simulated_runs": totals["runs"], "runs_per_hour": int(totals["runs"] / max(wall, 1e-9) * 3600), "totals": totals,
        "invalidation_matrix": matrix,
        "fault_kinds": {"read_fault_fired(EIO/EACCES/ENOENT on open/read/stat/lstat/readdir)": totals["faults_fired"],
                        "watch_mode_regenerations_started_while_the_package_was_invalid_for_good": totals["watch_regenerations_started_while_invalid"],
                        "write_fault_fired(ENOSPC/EIO/EACCES on write/mkdirall/rename/chmod below an output directory)": totals["write_faults_fired"],
                        "reported_by_yardl": totals["fault_reported"], "absorbed_by_yardl(not judged)": totals["fault_absorbed"]},
        "real_code": "all of tooling/** compiled from the working tree; cobra root command entry point",
        "stubbed": "os, path/filepath, os/exec, fsnotify (simulated OS)",
    }
    oneshot_cases = i          # (one-shot cases attempted, rejected ones included)
    if not check.violations and oneshot_cases >= 20 and totals["generator_rejected"] > 0.4 * oneshot_cases:
        # a tool that rejects the valid packages of the workload leaves nothing to invalidate: not a violation of this property,
        # and not a pass either
        raise tw.HarnessTrouble("yardl rejected %d of %d valid packages of the workload; nothing was decided" % (totals["generator_rejected"], oneshot_cases))
    check.assumptions += ["for write-side faults only the exit status is judged",
                          "a read fault yardl absorbs (exit 0) is counted, not judged"]
    check.finish()


if __name__ == "__main__":
    main_guard(main)
