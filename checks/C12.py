#!/usr/bin/env python3
"""C12 — output is a deterministic, idempotent function of the package.

Deterministic simulation: the real yardl CLI runs inside the simulated OS; the Go runtime's
randomness (map hash seeds, iteration start offsets) is behind VERIF_MAPSEED, so K executions
of one package differ in nothing but the map iteration orders they see.  Secondary fault
configurations: crash at the k-th disk mutation then rerun; dirty start (other package's output
already in place).
"""
import os, sys, json, copy, hashlib
sys.path.insert(0, os.path.join(os.path.dirname(os.path.abspath(__file__)), ".."))
from common.checklib import Check, parse_args, main_guard
from gen import model as M, edits as E
from toolworld import tw

PROP = "C12"


def outcome(res):
    """What a user observes of one execution: exit status, diagnostics, every file."""
    if res.get("status") == "process_died":
        return ("died", res.get("rc"), res.get("stderr_tail", "")[-400:], None)
    files = {p: (e["k"], e.get("d", ""), e.get("t", "")) for p, e in res["tree"].items()}
    return (res["status"], res["exit_code"], res["stderr"], files)


def first_diff(a, b):
    if a[:2] != b[:2]:
        return "status", "%r vs %r" % (a[:2], b[:2])
    if a[2] != b[2]:
        la, lb = a[2].split("\n"), b[2].split("\n")
        for i in range(max(len(la), len(lb))):
            x = la[i] if i < len(la) else "<none>"
            y = lb[i] if i < len(lb) else "<none>"
            if x != y:
                return "diagnostics", "line %d: %r vs %r" % (i + 1, x[:200], y[:200])
    fa, fb = a[3] or {}, b[3] or {}
    for p in sorted(set(fa) | set(fb)):
        if fa.get(p) != fb.get(p):
            return "file", p
    return None, None


def make_workload(seed, i):
    """(description, files, cwd) for package i of this run."""
    rng = M.derive(seed, "c12", i)
    pkg = M.gen_package(rng.next())
    M.randomize_target_options(pkg, rng.fork("options"), p=0.3)
    kind = rng.weighted([("plain", 3), ("versions", 4), ("invalid", 2)])
    desc = {"i": i, "kind": kind, "pkg_seed": pkg.render_seed}
    gu = rng.fork("genunion")
    if gu.chance(0.5):
        # generic unions over two and three type parameters, a generic record with a union of its parameters, and uses of them
        fn = sorted(pkg.files)[0]
        pkg.files[fn].append(M.Alias("SteerEither", ("T", "U"), M.Union((("tEither", M.TParam("T")), ("uEither", M.TParam("U"))), explicit=True)))
        pkg.files[fn].append(M.Alias("SteerTriple", ("A", "B", "C"), M.Union((("aTriple", M.TParam("A")), ("bTriple", M.TParam("B")), ("cTriple", M.TParam("C"))), nullable=True, explicit=True)))
        pkg.files[fn].append(M.Record("SteerEnvelope", ("K", "V"), [("id", M.Prim("int32")), ("payload", M.Union((("kEnv", M.TParam("K")), ("vEnv", M.TParam("V"))), explicit=True)),
                                                                  ("maybe", M.Opt(M.Named("SteerEither", (M.TParam("K"), M.TParam("V")))))]))
        prims = [M.Prim(x) for x in gu.sample(["int32", "string", "float64", "bool", "uint8"], 3)]
        pkg.files[fn].append(M.Protocol("SteerGenUnions", [("either", M.Named("SteerEither", (prims[0], prims[1])), gu.chance(0.5)),
                                                           ("triple", M.Named("SteerTriple", tuple(prims)), gu.chance(0.5)),
                                                           ("envelope", M.Named("SteerEnvelope", (prims[1], prims[2])), gu.chance(0.5))]))
        desc["generic_unions"] = True
    hg = rng.fork("hugeschema")
    if hg.chance(0.12):
        # a schema text beyond 64 KiB (generated files carry it on one line): an enumeration with a few thousand symbols that
        # every protocol uses - lines longer than any reasonable read buffer in the files that are compared and rewritten
        fn = sorted(pkg.files)[0]
        pkg.files[fn].append(M.Enum("AaaHugeCodes", "uint16", [("code%04d" % k_, k_) for k_ in range(hg.randint(2400, 3200))]))
        for d_ in pkg.defs():
            if isinstance(d_, M.Protocol):
                d_.steps.append(("steerhuge", M.Named("AaaHugeCodes"), hg.chance(0.5)))
        desc["schema_text_beyond_64KiB"] = True
    cs = rng.fork("caseonly")
    if cs.chance(0.3):
        # names that differ in letter case only (XMLBlob / XmlBlob): two definitions, two files per file-per-type back end
        fn = sorted(pkg.files)[0]
        stem = cs.choice(["Blob", "Header", "Info"])
        a, b = "SteerXML" + stem, "SteerXml" + stem
        order = [a, b] if cs.chance(0.5) else [b, a]
        pkg.files[fn].append(M.Record(order[0], (), [("payload", M.Prim("string")), ("size", M.Prim("uint32"))]))
        pkg.files[fn].append(M.Record(order[1], (), [("text", M.Prim("string"))]))
        pkg.files[fn].append(M.Protocol("SteerCaseOnly", [("first", M.Named(a), False), ("second", M.Named(b), True)]))
        desc["names_differing_in_case_only"] = [a, b]
    tr = rng.fork("transitive")
    if tr.chance(0.3):
        # a package that is only reached through another one: the main package imports TransA, TransA imports TransB
        pb = M.Package("TransB", "imp_transb", {"b.yml": [M.Record("TransBRec", (), [("v", M.Prim("int32")), ("label", M.Prim("string"))]),
                                                           M.Enum("TransBKind", None, [("plain", 0), ("fancy", 1)])]})
        pa = M.Package("TransA", "imp_transa", {"a.yml": [M.Record("TransARec", (), [("inner", M.Named("TransBRec", (), "TransB")), ("kind", M.Named("TransBKind", (), "TransB")), ("n", M.Prim("int32"))])]},
                       imports=[pb])
        pkg.imports.append(pa)
        fn = sorted(pkg.files)[0]
        pkg.files[fn].append(M.Record("SteerUsesTrans", (), [("t", M.Named("TransARec", (), "TransA")), ("count", M.Prim("uint8"))]))
        pkg.files[fn].append(M.Protocol("SteerTrans", [("one", M.Named("SteerUsesTrans"), False), ("many", M.Named("TransARec", (), "TransA"), True)]))
        desc["transitively_imported_package"] = True
    nc = rng.fork("nscase")
    if nc.chance(0.08):
        # two imported namespaces that differ in the capitalisation of an acronym only (each back end derives directory and
        # module names from a namespace in its own way)
        pa = M.Package("SteerHTTPServer", "imp_httpserver_a", {"a.yml": [M.Record("SteerRequest", (), [("path", M.Prim("string")), ("size", M.Prim("uint32"))])]})
        pb = M.Package("SteerHttpServer", "imp_httpserver_b", {"b.yml": [M.Record("SteerReply", (), [("status", M.Prim("int32")), ("body", M.Prim("string"))])]})
        pkg.imports += [pa, pb]
        fn = sorted(pkg.files)[0]
        pkg.files[fn].append(M.Protocol("SteerExchange", [("request", M.Named("SteerRequest", (), "SteerHTTPServer"), False), ("replies", M.Named("SteerReply", (), "SteerHttpServer"), True)]))
        desc["namespaces_that_differ_in_capitalisation_only"] = ["SteerHTTPServer", "SteerHttpServer"]
    sh = rng.fork("shared")
    if len(pkg.imports) >= 2 and sh.chance(0.6):
        # the same type name in two imported packages (each namespace has its own)
        nm = "Common%s" % sh.choice(M.WORDS).capitalize()
        for k, imp in enumerate(pkg.imports[:2]):
            imp.files[sorted(imp.files)[0]].append(M.Record(nm, (), [("f%d" % k, M.Prim(sh.choice(["int32", "string"])))]))
        desc["type_name_shared_by_two_imports"] = nm
    if kind in ("versions", "invalid") and rng.chance(0.8 if kind == "versions" else 0.55):
        if rng.chance(0.5):
            # give the oldest version extra protocols that the newest no longer has: every removed protocol
            # yields a warning, and they are all attached to the same location
            r2 = rng.fork("extra")
            fn = sorted(pkg.files)[0]
            for k in range(r2.randint(2, 5)):
                pkg.files[fn].append(M.Protocol("Gone%s%d" % (r2.choice(M.WORDS).capitalize(), k), [("s0", M.Prim(r2.choice(["int32", "string", "float64"])), r2.chance(0.5))]))
            desc["removed_protocols"] = True
        # steps whose type may change at *every* evolution step, so that one step differs from the current model in a
        # different way in every previous version (per-version code paths of the generators)
        protos_ = [d for d in pkg.defs() if isinstance(d, M.Protocol) and not d.name.startswith("Gone")]
        if protos_:
            protos_[0].steps.append(("steerw", M.Prim("int8"), False))
            protos_[0].steps.append(("steerwv", M.Vec(M.Prim("uint8")), False))
            protos_[0].steps.append(("steerwo", M.Opt(M.Prim("int16")), True))
        pkg = E.with_versions(pkg, rng.fork("v"), rng.randint(1, 3), partial=True if protos_ else rng.chance(0.7), layout=rng.fork("layout").choice(["siblings", "siblings", "archive"]),
                              order=rng.fork("order").choice(["oldest_first", "newest_first", "shuffled"]), widen_steps=("steerw", "steerwv", "steerwo"))
        if desc.get("removed_protocols"):
            for fn2 in pkg.files:
                pkg.files[fn2] = [d for d in pkg.files[fn2] if not (isinstance(d, M.Protocol) and d.name.startswith("Gone"))]
        desc["versions"] = len(pkg.versions)
    if kind == "invalid" and pkg.versions and rng.fork("evobreak").chance(0.6):
        # an evolution that yardl must reject, with several things to say about one definition: symbols of one enum removed and
        # renumbered relative to the previous versions, fields of one record retyped
        eb = rng.fork("evobreak2")
        fn = sorted(pkg.files)[0]
        big = M.Enum("SteerWeekday", None, [(w_, k_) for k_, w_ in enumerate(["mon", "tue", "wed", "thu", "fri", "sat", "sun"])])
        for q in [v for _, v in pkg.versions] + [pkg]:
            q.files[sorted(q.files)[0]].append(copy.deepcopy(big))
            # (only what protocols use is compared between versions)
            q.files[sorted(q.files)[0]].append(M.Protocol("SteerDays", [("day", M.Named("SteerWeekday"), False), ("days", M.Named("SteerWeekday"), True)]))
        what_ = [E.apply_edit(pkg, eb, "shrink_enum")]
        for _ in range(eb.randint(0, 2)):
            what_.append(E.apply_edit(pkg, eb, eb.choice(["retype_field", "change_enum", "shrink_enum"])))
        desc["evolution_breaking_edits"] = [w_ for w_ in what_ if w_]
    rng.fork("importorder").shuffle(pkg.imports)      # the manifest lists the imported packages in any order
    ah = rng.fork("arrayheader")
    if "cpp" in pkg.targets and ah.chance(0.4):
        # the array header of the C++ target given as a path relative to the package (a file kept next to the model)
        pkg.targets["cpp"] = dict(pkg.targets["cpp"], overrideArrayHeader="arrays/my_arrays.h")
        desc["relative_array_header"] = True
    files = M.render_tree(pkg, "/w")
    if desc.get("relative_array_header"):
        files["/w/pkg/arrays/my_arrays.h"] = "#pragma once\n// the project's own array types\n"
    desc["other_files_in_package_dirs"] = len(M.add_clutter(files, rng.fork("clutter")))
    if desc.get("type_name_shared_by_two_imports") and not desc.get("evolution_breaking_edits") and rng.fork("unqforce").chance(0.7):
        # the qualifier forgotten on a type that two imported packages define: whatever a diagnostic says about it must not vary
        f2, d = E.invalidate(files, "/w/pkg", rng.fork("unq"), "unqualified_import_ref")
        if f2:
            files = f2
            desc["unqualified_reference_to_a_name_two_imports_define"] = d
            desc["kind"] = "invalid"
    if kind == "invalid" and not desc.get("evolution_breaking_edits"):      # (evolution is only checked once everything else is valid)
        # several independent errors so that the order of diagnostics matters
        n = rng.randint(1, 4)
        what = []
        dirs = sorted({p.rsplit("/", 1)[0] for p in files})
        # one error in each of several previous versions: which version's errors are reported (the first one listed) must not vary
        vdirs = [dv for dv in ("/w/" + v.dirname for _, v in pkg.versions) if dv in dirs]
        per_version = len(vdirs) >= 2 and rng.fork("pervers").chance(0.6)
        if per_version:
            n = len(vdirs) + rng.randint(0, 1)
            desc["errors_in_several_versions"] = len(vdirs)
        for j in range(n):
            target = vdirs[j] if (per_version and j < len(vdirs)) else rng.choice(dirs)
            f2, d = E.invalidate(files, target, rng.fork("inv", j), rng.choice(E.INVALID_KINDS[1:5] + ["stream_in_record", "unqualified_import_ref", "unqualified_import_ref"] + E.RULE_KINDS))
            if f2:
                files, _ = f2, what.append(d)
        desc["invalidations"] = what
        fl = rng.fork("flood")
        if fl.chance(0.2):
            # a package with more than a hundred errors (a model converted by a script that kept another language's naming
            # conventions and OR-ed masks together): dozens of badly cased field names, and two enumerations in which a dozen
            # values occur twice each
            mf_ = E.model_files(files, "/w/pkg")
            if mf_:
                n_ = fl.randint(80, 99)
                text = "\nZqFloodHeader: !record\n  fields:\n" + "".join("    user_param_%d: int\n" % k_ for k_ in range(n_))
                for nm_, base_ in (("ZqFloodMask", "!flags"), ("ZqFloodCode", "!enum")):
                    text += "\n%s: %s\n  base: uint64\n  values:\n" % (nm_, base_) + "".join("    coil%d: %d\n    receiver%d: %d\n" % (k_, 1 << k_, k_, 1 << k_) for k_ in range(fl.randint(8, 16)))
                files = dict(files)
                files[mf_[0]] = files[mf_[0]] + text
                desc["more_than_a_hundred_errors"] = n_
    # command-line overrides of manifest keys (--config key=value): some that exist, and for some cases several that do not
    ar = rng.fork("args")
    if ar.chance(0.3):
        good = []
        for t in sorted(pkg.targets):
            good.append("%s.disabled=%s" % (t, ar.choice(["false", "false", "true"])))
            if t in ("cpp", "python"):
                good.append("%s.generateNDJson=%s" % (t, ar.choice(["true", "false"])))
        bad = ["nosuch.key=1", "cpp.nosuchOption=true", "zzz=1", "python.outputdir=../x", "Namespace=Other", "imports.extra=../nowhere"]
        chosen = ar.sample(good, ar.randint(0, min(2, len(good)))) if good else []
        if ar.chance(0.45):
            chosen += ar.sample(bad, ar.randint(2, 4))
            desc["unknown_config_keys"] = True
        ar.shuffle(chosen)
        if chosen:
            desc["args"] = ["generate"] + [x for kv in chosen for x in ("--config", kv)]
    if "args" not in desc and ar.fork("validate").chance(0.1):
        desc["args"] = ["validate"]          # the other command that prints diagnostics about a package
    return desc, files, "/w/pkg"


def oneshot(desc, files, cwd, **kw):
    """The command line of the case: `generate`, for some cases with --config overrides."""
    return tw.oneshot_spec(files, cwd, args=tuple((desc or {}).get("args") or ("generate",)), **kw)


def sched_for(seed, i, k):
    if k == 0:
        return {}
    r = M.derive(seed, "sched", i, k)
    return {"gpolicy": ["sticky", "pct", "starve", "rtc"][k % 4], "seed": r.next() % (1 << 31) + 1, "p_switch": r.choice([0.1, 0.3, 0.6])}


def run_case(sim, check, seed, i, K, n_crash):
    desc, files, cwd = make_workload(seed, i)
    mapseeds = [M.derive(seed, "mapseed", i, k).next() % (1 << 31) + 1 for k in range(K)]
    # each execution also gets its own goroutine schedule (should the tool start goroutines): run to completion first,
    # then the other scheduler policies with a seed of their own
    scheds = [sched_for(seed, i, k) for k in range(K)]
    results = [sim.run(oneshot(desc, files, cwd, **sc), mapseed=ms) for ms, sc in zip(mapseeds, scheds)]
    stats_goroutines = max(len({o.get("g") for o in r.get("ops", []) if o.get("g")}) for r in results)
    outs = [outcome(r) for r in results]
    stats = {"runs": K, "desc": desc, "accepted": outs[0][0] == "returned" and outs[0][1] == 0,
             "has_diag": bool(outs[0][2]), "n_mut": results[0].get("n_mut", 0), "goroutines": stats_goroutines}
    viols = []
    base = outs[0]
    for k in range(1, K):
        what, where = first_diff(base, outs[k])
        if what:
            viols.append(({"class": "differs_across_runs", "what": what, "where": where.replace("/w/", "") if what == "file" else where[:300]},
                          {"mode": "seeds", "files": files, "cwd": cwd, "mapseeds": [mapseeds[0], mapseeds[k]], "scheds": [scheds[0], scheds[k]], "seed": seed, "case": desc}))
            break
    if base[0] == "died":
        return stats, viols
    # the same package reached through another path: /via is a symbolic link to /w, the command is run in /via/pkg (which
    # is what the working directory is called then); the files generated must be those of the run in /w/pkg
    if stats["accepted"] and (desc.get("args") or ["generate"])[0] == "generate":
        rv = sim.run(oneshot(desc, files, "/via/pkg", links={"/via": "/w"}), mapseed=mapseeds[0])
        stats["runs"] += 1
        stats["via_symlink"] = 1
        a = {p_: c_ for p_, c_ in tw.tree_files(results[0]["tree"]).items() if p_ not in files}
        b = {p_: c_ for p_, c_ in tw.tree_files(rv.get("tree") or {}).items() if p_ not in files}
        if rv.get("status") != "returned" or rv.get("exit_code") != 0 or a != b:
            diff = sorted(p_ for p_ in set(a) | set(b) if a.get(p_) != b.get(p_))
            viols.append(({"class": "output_depends_on_the_path_the_package_was_reached_by", "where": (diff[0] if diff else "exit %s" % rv.get("exit_code")).replace("/w/", "")[:200]},
                          {"mode": "via_symlink", "files": files, "cwd": cwd, "mapseeds": [mapseeds[0]], "seed": seed, "case": desc}))
    # the same command with another logging flag: what is printed differs, what is generated must not
    if stats["accepted"] and (desc.get("args") or ["generate"])[0] == "generate":
        dv = dict(desc, args=list(desc.get("args") or ["generate"]) + ["--verbose"])
        rb = sim.run(oneshot(dv, files, cwd), mapseed=mapseeds[0])
        stats["runs"] += 1
        stats["verbose_run"] = 1
        a = {p_: c_ for p_, c_ in tw.tree_files(results[0]["tree"]).items() if p_ not in files}
        b = {p_: c_ for p_, c_ in tw.tree_files(rb.get("tree") or {}).items() if p_ not in files}
        if rb.get("status") != "returned" or rb.get("exit_code") != 0 or a != b:
            diff = sorted(p_ for p_ in set(a) | set(b) if a.get(p_) != b.get(p_))
            viols.append(({"class": "output_depends_on_the_logging_flag", "where": (diff[0] if diff else "exit %s" % rb.get("exit_code")).replace("/w/", "")[:200]},
                          {"mode": "verbose", "files": files, "cwd": cwd, "mapseeds": [mapseeds[0]], "seed": seed, "case": desc}))
    # idempotence: second run on the disk the first one left behind issues no mutation
    if stats["accepted"]:
        populated = dict(files)
        populated.update(tw.tree_files(results[0]["tree"]))
        links = {p: e["t"] for p, e in results[0]["tree"].items() if e["k"] == "l"}
        for ms in (mapseeds[0], mapseeds[-1]):
            r2 = sim.run(oneshot(desc, populated, cwd, links=links, dirs=tw.tree_dirs(results[0]["tree"])), mapseed=ms)
            stats["runs"] += 1
            muts = [o for o in r2.get("ops", []) if o.get("mut")]
            d = tw.tree_diff(results[0]["tree"], r2.get("tree", {})) if r2.get("tree") else [("died", "")]
            if muts or d or r2.get("status") != "returned":
                where = (muts[0]["op"] + " " + muts[0]["path"]) if muts else str(d[:1])
                rec_ = {"class": "rerun_mutates_output", "where": where.replace("/w/", "")[:200]}
                if desc.get("namespaces_that_differ_in_capitalisation_only") and muts and all("steer_http_server" in o["path"].lower() or "steerhttpserver" in o["path"].lower() for o in muts):
                    rec_["cause"] = "two_namespaces_one_output_directory"      # (identification of a recorded finding, known_findings.json)
                viols.append((rec_,
                              {"mode": "rerun", "files": files, "cwd": cwd, "mapseeds": [mapseeds[0], ms], "seed": seed, "case": desc}))
                break
        # crash at the k-th disk mutation, then run again: every file of the clean run has its bytes
        nm = results[0]["n_mut"]
        rng = M.derive(seed, "crash", i)
        ks = sorted({rng.randint(1, max(1, nm)) for _ in range(n_crash)}) if nm else []
        clean = tw.tree_files(results[0]["tree"])
        for k in ks:
            tear = rng.choice(TEARS)
            rc = sim.run(oneshot(desc, files, cwd, crash_at=k, crash_tear=tear), mapseed=mapseeds[0])
            stats["runs"] += 1
            if rc.get("status") != "crashed":
                continue
            stats["crash_points"] = stats.get("crash_points", 0) + 1
            torn = [p for p, c in tw.tree_files(rc["tree"]).items() if p in clean and c != clean[p]]
            if torn:
                stats["crash_left_torn_file"] = stats.get("crash_left_torn_file", 0) + 1
                if any(len(tw.tree_files(rc["tree"])[p]) == len(clean[p]) for p in torn):
                    stats["crash_left_same_size_torn_file"] = stats.get("crash_left_same_size_torn_file", 0) + 1
            after = dict(files)
            after.update(tw.tree_files(rc["tree"]))
            r3 = sim.run(oneshot(desc, after, cwd), mapseed=mapseeds[0])
            stats["runs"] += 1
            got = tw.tree_files(r3["tree"]) if r3.get("tree") else {}
            badp = [p for p in clean if got.get(p) != clean[p]]
            if badp or r3.get("exit_code") != 0:
                viols.append(({"class": "crash_rerun_differs", "where": badp[0].replace("/w/", "") if badp else "exit", "tear": tear},
                              {"mode": "crash", "files": files, "cwd": cwd, "crash_at": k, "crash_tear": tear, "mapseeds": [mapseeds[0]], "seed": seed, "case": desc}))
                break
        # dirty start: the model is edited (often without changing any length: int32 -> int64) and generated again
        # over the first run's output; every file of a clean run of the edited package must have exactly its bytes
        for j in range(2):
            files2, what = token_edit(files, M.derive(seed, "dirty", i, j))
            if files2 is None:
                break
            c2 = sim.run(oneshot(desc, files2, cwd), mapseed=mapseeds[0])
            stats["runs"] += 1
            if c2.get("status") != "returned" or c2.get("exit_code") != 0:
                continue
            clean2 = tw.tree_files(c2["tree"])
            start = dict(tw.tree_files(results[0]["tree"]))
            start.update(files2)
            d2 = sim.run(oneshot(desc, start, cwd, links=links, dirs=tw.tree_dirs(results[0]["tree"])), mapseed=mapseeds[0])
            stats["runs"] += 1
            stats["dirty_starts"] = stats.get("dirty_starts", 0) + 1
            got = tw.tree_files(d2["tree"]) if d2.get("tree") else {}
            stale = [p for p in clean2 if p in clean and clean[p] != clean2[p]]
            if any(len(clean[p]) == len(clean2[p]) for p in stale):
                stats["dirty_same_size_stale_file"] = stats.get("dirty_same_size_stale_file", 0) + 1
            badp = [p for p in sorted(clean2) if got.get(p) != clean2[p]]
            if badp or d2.get("exit_code") != 0:
                viols.append(({"class": "dirty_start_differs", "where": badp[0].replace("/w/", "") if badp else "exit"},
                              {"mode": "dirty", "files": files, "files2": files2, "edit": what, "cwd": cwd, "mapseeds": [mapseeds[0]], "seed": seed, "case": desc}))
                break
    return stats, viols


TEARS = ["", "short", "zerotail", "zerotail"]
SAME_LEN = [["int16", "int32", "int64", "uint8"], ["uint16", "uint32", "uint64"], ["float32", "float64"], ["complexfloat32", "complexfloat64"]]


def token_edit(files, rng):
    """One primitive type name in a model file of the main package replaced by another one, of the same
    length three times out of four.  (None, None) if the package has no such token."""
    import re
    alts = {t: [u for u in grp if u != t] for grp in SAME_LEN for t in grp}
    every = sorted(alts) + ["string", "bool"]
    pat = re.compile(r"(?<![A-Za-z0-9_])(%s)(?![A-Za-z0-9_])" % "|".join(sorted(alts, key=len, reverse=True)))
    sites = []
    for p in sorted(files):
        if not p.startswith("/w/pkg/") or p.endswith("_package.yml") or not p.endswith(".yml"):
            continue
        sites += [(p, m.start(), m.group(1)) for m in pat.finditer(files[p])]
    if not sites:
        return None, None
    p, at, tok = rng.choice(sites)
    new = rng.choice(alts[tok]) if rng.chance(0.75) else rng.choice([t for t in every if t != tok])
    out = dict(files)
    out[p] = files[p][:at] + new + files[p][at + len(tok):]
    return out, {"file": p, "offset": at, "from": tok, "to": new}


def replay(sim, doc):
    files, cwd, ms = doc["files"], doc["cwd"], doc["mapseeds"]
    desc = doc.get("case") or {}
    mode = doc["mode"]
    if mode == "seeds":
        sc = doc.get("scheds") or [{}, {}]
        a = outcome(sim.run(oneshot(desc, files, cwd, **sc[0]), mapseed=ms[0]))
        b = outcome(sim.run(oneshot(desc, files, cwd, **sc[1]), mapseed=ms[1]))
        what, where = first_diff(a, b)
        return bool(what), "%s %s" % (what, where)
    if mode == "via_symlink":
        r1 = sim.run(oneshot(desc, files, cwd), mapseed=ms[0])
        rv = sim.run(oneshot(desc, files, "/via/pkg", links={"/via": "/w"}), mapseed=ms[0])
        a = {p_: c_ for p_, c_ in tw.tree_files(r1["tree"]).items() if p_ not in files}
        b = {p_: c_ for p_, c_ in tw.tree_files(rv.get("tree") or {}).items() if p_ not in files}
        return a != b or rv.get("exit_code") != 0, "files generated through /via/pkg %s those generated in /w/pkg" % ("differ from" if a != b else "equal")
    if mode == "verbose":
        r1 = sim.run(oneshot(desc, files, cwd), mapseed=ms[0])
        rb = sim.run(oneshot(dict(desc, args=list(desc.get("args") or ["generate"]) + ["--verbose"]), files, cwd), mapseed=ms[0])
        a = {p_: c_ for p_, c_ in tw.tree_files(r1["tree"]).items() if p_ not in files}
        b = {p_: c_ for p_, c_ in tw.tree_files(rb.get("tree") or {}).items() if p_ not in files}
        return a != b or rb.get("exit_code") != 0, "files generated with --verbose %s those generated without" % ("differ from" if a != b else "equal")
    if mode == "rerun":
        r1 = sim.run(oneshot(desc, files, cwd), mapseed=ms[0])
        populated = dict(files); populated.update(tw.tree_files(r1["tree"]))
        links = {p: e["t"] for p, e in r1["tree"].items() if e["k"] == "l"}
        r2 = sim.run(oneshot(desc, populated, cwd, links=links, dirs=tw.tree_dirs(r1["tree"])), mapseed=ms[1])
        muts = [o for o in r2.get("ops", []) if o.get("mut")]
        return bool(muts) or bool(tw.tree_diff(r1["tree"], r2["tree"])), str(muts[:2])
    if mode == "crash":
        r1 = sim.run(oneshot(desc, files, cwd), mapseed=ms[0])
        clean = tw.tree_files(r1["tree"])
        rc = sim.run(oneshot(desc, files, cwd, crash_at=doc["crash_at"], crash_tear=doc.get("crash_tear", "")), mapseed=ms[0])
        after = dict(files); after.update(tw.tree_files(rc["tree"]))
        r3 = sim.run(oneshot(desc, after, cwd), mapseed=ms[0])
        got = tw.tree_files(r3["tree"])
        badp = [p for p in clean if got.get(p) != clean[p]]
        return bool(badp), str(badp[:3])
    if mode == "dirty":
        r1 = sim.run(oneshot(desc, files, cwd), mapseed=ms[0])
        c2 = sim.run(oneshot(desc, doc["files2"], cwd), mapseed=ms[0])
        if c2.get("exit_code") != 0 or r1.get("exit_code") != 0:
            return False, "a package of the pair is no longer accepted"
        clean2 = tw.tree_files(c2["tree"])
        start = dict(tw.tree_files(r1["tree"])); start.update(doc["files2"])
        links = {p: e["t"] for p, e in r1["tree"].items() if e["k"] == "l"}
        d2 = sim.run(oneshot(desc, start, cwd, links=links, dirs=tw.tree_dirs(r1["tree"])), mapseed=ms[0])
        got = tw.tree_files(d2["tree"])
        badp = [p for p in sorted(clean2) if got.get(p) != clean2[p]]
        return bool(badp) or d2.get("exit_code") != 0, str(badp[:3])
    raise ValueError(mode)


def minimise(sim, rec, doc):
    """Drop model files / target sections / versions while the same violation class persists."""
    def still(d):
        try:
            ok, _ = replay(sim, d)
            return ok
        except Exception:
            return False
    cur = doc
    man = cur["cwd"] + "/_package.yml"
    for section in ("matlab:", "cpp:", "python:", "json:"):
        text = cur["files"].get(man, "")
        if section in text:
            lines, out, skip = text.split("\n"), [], False
            for l in lines:
                if l.startswith(section):
                    skip = True
                    continue
                if skip and l.startswith("  "):
                    continue
                skip = False
                out.append(l)
            cand = dict(cur, files=dict(cur["files"], **{man: "\n".join(out)}))
            if still(cand):
                cur = cand
    return cur


def main():
    args = parse_args(PROP)
    check = Check(PROP, "exploration", args)
    sim = tw.Sim(args.repo)
    if args.replay:
        doc = json.load(open(args.replay))
        ok, detail = replay(sim, doc)
        print("replay: violation %s: %s" % ("reproduced" if ok else "NOT reproduced", detail))
        if ok:
            print("VIOLATION property=%s replay=%s" % (PROP, args.replay))
        sys.exit(1 if ok else 0)
    quick = args.tier == "quick"
    K = 8 if quick else 24
    n_crash = 3 if quick else 10
    budget = check.budget(120, 1500)
    max_cases = 160 if quick else 100000
    totals = {"runs": 0, "accepted": 0, "rejected_with_diagnostics": 0, "with_versions": 0, "invalid": 0,
              "crash_points": 0, "crash_left_torn_file": 0, "crash_left_same_size_torn_file": 0, "warnings_seen": 0,
              "dirty_starts": 0, "dirty_same_size_stale_file": 0, "cases_with_errors_in_several_versions": 0, "executions_with_a_seeded_goroutine_schedule": 0, "cases_in_which_the_tool_ran_several_goroutines": 0, "cases_also_run_through_a_symlinked_path": 0, "cases_also_run_with_verbose": 0, "cases_with_config_overrides": 0, "cases_with_several_unknown_config_keys": 0}
    i = 0
    batch = 32
    while i < max_cases and check.elapsed() < budget:
        idx = list(range(i, min(i + batch, max_cases)))
        i += len(idx)
        for (stats, viols), ci in zip(sim.map(idx, lambda c: run_case(sim, check, args.seed, c, K, n_crash)), idx):
            totals["runs"] += stats["runs"]
            d = stats["desc"]
            totals["accepted"] += 1 if stats["accepted"] else 0
            totals["rejected_with_diagnostics"] += 1 if (not stats["accepted"] and stats["has_diag"]) else 0
            totals["warnings_seen"] += 1 if (stats["accepted"] and stats["has_diag"]) else 0
            totals["with_versions"] += 1 if d.get("versions") else 0
            totals["invalid"] += 1 if d["kind"] == "invalid" else 0
            totals["cases_with_errors_in_several_versions"] += 1 if d.get("errors_in_several_versions") else 0
            totals["executions_with_a_seeded_goroutine_schedule"] += K - 1
            totals["cases_also_run_through_a_symlinked_path"] += stats.get("via_symlink", 0)
            totals["cases_also_run_with_verbose"] += stats.get("verbose_run", 0)
            totals["cases_with_config_overrides"] += 1 if d.get("args") else 0
            totals["cases_with_several_unknown_config_keys"] += 1 if d.get("unknown_config_keys") else 0
            totals["cases_with_namespaces_that_differ_in_capitalisation_only"] = totals.get("cases_with_namespaces_that_differ_in_capitalisation_only", 0) + (1 if d.get("namespaces_that_differ_in_capitalisation_only") else 0)
            totals["cases_with_more_than_a_hundred_errors"] = totals.get("cases_with_more_than_a_hundred_errors", 0) + (1 if d.get("more_than_a_hundred_errors") else 0)
            totals["cases_with_a_schema_text_beyond_64KiB"] = totals.get("cases_with_a_schema_text_beyond_64KiB", 0) + (1 if d.get("schema_text_beyond_64KiB") else 0)
            totals["cases_in_which_the_tool_ran_several_goroutines"] += 1 if stats.get("goroutines", 0) > 1 else 0
            totals["crash_points"] += stats.get("crash_points", 0)
            for key in ("crash_left_torn_file", "crash_left_same_size_torn_file", "dirty_starts", "dirty_same_size_stale_file"):
                totals[key] += stats.get(key, 0)
            check.note_case(("pkg", d["pkg_seed"], d["kind"], d.get("versions", 0)), nontrivial=stats["n_mut"] > 0 or stats["has_diag"])
            check.sample({"case": d, "executions": stats["runs"], "disk_mutations_first_run": stats["n_mut"], "accepted": stats["accepted"]})
            for rec, doc in viols:
                if check.findings.match(PROP, rec) is None and len(check.violations) < 3:
                    doc = minimise(sim, rec, doc)
                check.report(rec, doc)
        if len(check.violations) >= 3:
            break
    wall = check.elapsed()
    check.coverage["rule"] = ("one case = one generated package (plain / with previous versions / with 1-4 injected errors) executed K=%d times in "
                              "fresh simulator processes that differ only in VERIF_MAPSEED, plus 2 reruns on the populated disk and up to %d "
                              "crash-at-k-th-mutation (in-flight write complete / cut short / full length with zeroed tail) + rerun executions, and up to 2 "
                              "dirty starts (one primitive type name of the model replaced, mostly by one of equal length, and generated over the first run's output); non-trivial = the run wrote files or printed diagnostics; distinct = by package seed" % (K, n_crash))
    check.extra["simulation"] = {
        "simulated_runs": totals["runs"], "runs_per_hour": int(totals["runs"] / max(wall, 1e-9) * 3600),
        "totals": totals, "map_seeds_per_package": K,
        "fault_kinds": {"process_crash_at_disk_mutation": totals["crash_points"], "torn_output_file_left_by_crash": totals["crash_left_torn_file"],
                        "torn_file_of_full_length_with_zeroed_tail": totals["crash_left_same_size_torn_file"],
                        "stale_output_of_an_edited_model_present": totals["dirty_starts"], "stale_file_of_equal_size": totals["dirty_same_size_stale_file"]},
        "real_code": "all of tooling/** (cobra command, packaging, dsl, cpp/python/matlab/json generators), koanf, yaml, zerolog — compiled from the working tree",
        "stubbed": "os, path/filepath, os/exec, sync.Mutex, fsnotify (simulated OS); runtime.rand/bootstrapRand seeded via overlay",
        "simulator_build_s": round(sim.build_s, 1),
    }
    n_cases = check.coverage["evaluations"]
    if not check.violations and n_cases >= 20 and totals["accepted"] < 0.25 * n_cases:
        raise tw.HarnessTrouble("yardl accepted only %d of %d packages of the workload (about a quarter are invalid on purpose); nothing was decided" % (totals["accepted"], n_cases))
    check.assumptions += ["simulator built with go1.26.8 (shipped binary uses 1.24): yardl's source semantics assumed toolchain-independent",
                          "the seeded runtime only produces iteration orders the stock runtime can produce (seeds and start offsets), not arbitrary permutations"]
    check.finish()


if __name__ == "__main__":
    main_guard(main)
