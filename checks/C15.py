#!/usr/bin/env python3
"""C15 — readers refuse streams of a different schema or format.

Faults: misdelivery (a valid stream of protocol A handed to the reader of a different or
near-identical protocol B) and stored-byte corruption of a valid header (every single-bit flip and
sampled single-byte substitutions in the magic, the version word, the schema length and sampled
positions of the schema text; NDJSON: the header line).  The reader must raise before it returns any
value.  Positive control in every case: the uncorrupted own stream is accepted.
"""
import os, sys, io, json, copy
sys.path.insert(0, os.path.join(os.path.dirname(os.path.abspath(__file__)), ".."))
from common.checklib import main_guard
from gen import model as M, values as V, refcodec as R
from streamworld import sw, pynode as P, cppnode as C, runner

PROP = "C15"
EDITS = ["field_type", "field_order", "enum_base", "vector_length", "union_order", "field_name", "make_optional", "enum_value", "enum_to_flags", "map_key",
         "imported_shadowed_type", "imported_type", "generic_argument"]


def add_steering(pkg):
    fn = sorted(pkg.files)[0]
    pkg.files[fn].append(M.Enum("SteerEnumQ", "int32", [("qa", 0), ("qb", 1)]))
    pkg.files[fn].append(M.Record("SteerRecQ", (), [
        ("alpha", M.Prim("int32")), ("beta", M.Prim("int32")), ("gamma", M.Prim("string")), ("delta", M.Named("SteerEnumQ")),
        ("epsilon", M.Vec(M.Prim("uint16"), 2)), ("zeta", M.Union((("int32", M.Prim("int32")), ("string", M.Prim("string"))))),
        ("eta", M.Map(M.Prim("string"), M.Prim("int32")))]))
    pkg.files[fn].append(M.Record("SteerGenQ", ("T",), [("tag", M.Prim("int32")), ("payload", M.TParam("T"))]))
    # an imported package whose type is re-exported under the same simple name (the idiom of yardl's own
    # test model: `Fruits: BasicTypes.Fruits`), and one that is used under its qualified name
    lib = M.Package("Steerlib", "imp_steerlib", {"lib.yml": [
        M.Record("SteerShadow", (), [("value", M.Prim("int32")), ("label", M.Prim("string"))]),
        M.Record("SteerPlain", (), [("value", M.Prim("int32"))])]})
    pkg.imports.append(lib)
    pkg.files[fn].append(M.Alias("SteerShadow", (), M.Named("SteerShadow", (), "Steerlib")))
    pkg.files[fn].append(M.Record("SteerArgA", (), [("first", M.Prim("int32")), ("second", M.Prim("string"))]))
    pkg.files[fn].append(M.Record("SteerArgB", (), [("value", M.Prim("int32")), ("weight", M.Prim("float32"))]))
    for d in pkg.defs():
        if isinstance(d, M.Protocol):
            # the same generic instantiated several times, its later arguments being types that nothing else refers to
            d.steps.append(("steergena", M.Named("SteerGenQ", (M.Named("SteerArgA"),)), False))
            d.steps.append(("steergenb", M.Named("SteerGenQ", (M.Named("SteerArgB"),)), True))
            d.steps.append(("steerq", M.Named("SteerRecQ"), False))
            d.steps.append(("steershadow", M.Named("SteerShadow"), False))
            d.steps.append(("steerplain", M.Named("SteerPlain", (), "Steerlib"), False))
            d.steps.append(("steergen", M.Named("SteerGenQ", (M.Prim("int32"),)), False))
    # a sibling protocol in the *same* package: same step names, one step encoded differently (protocol
    # variants living side by side; a reader of one must refuse the other's streams)
    first = [d for d in pkg.defs() if isinstance(d, M.Protocol)][0]
    sib = copy.deepcopy(first)
    sib.name = first.name + SIBLING
    first.steps.append(("steersib", M.Prim("int32"), False))
    sib.steps.append(("steersib", M.Prim("int64"), False))
    pkg.files[fn].append(sib)
    # ... and two more whose names differ from each other in the capitalisation of an acronym only (ImageRGB / ImageRgb): whatever a
    # generator derives from a protocol's name must still tell them apart
    for suffix_, t_ in (("RGB", "int16"), ("Rgb", "string")):
        v_ = copy.deepcopy(first)
        v_.name = first.name + suffix_
        v_.steps[-1] = ("steersib", M.Prim(t_), False)
        pkg.files[fn].append(v_)


SIBLING = "Sibling"


def near_identical(pkg, edit):
    """A copy of pkg that differs in exactly one wire-relevant detail of SteerRecQ / SteerEnumQ."""
    b = copy.deepcopy(pkg)
    rec, en = b.find("SteerRecQ"), b.find("SteerEnumQ")
    f = dict(rec.fields)
    if edit == "field_type":
        rec.fields = [(n, M.Prim("int64") if n == "alpha" else t) for n, t in rec.fields]
    elif edit == "field_order":
        rec.fields[0], rec.fields[1] = rec.fields[1], rec.fields[0]     # two int32 fields swapped: same bytes, different meaning
    elif edit == "enum_base":
        en.base = "int16"
    elif edit == "enum_value":
        en.values = [("qa", 0), ("qb", 2)]
    elif edit == "enum_to_flags":
        en.flags = True                      # same symbols, same values, same base: a set of them instead of one of them
    elif edit == "vector_length":
        rec.fields = [(n, M.Vec(M.Prim("uint16"), 3) if n == "epsilon" else t) for n, t in rec.fields]
    elif edit == "union_order":
        rec.fields = [(n, M.Union((("string", M.Prim("string")), ("int32", M.Prim("int32")))) if n == "zeta" else t) for n, t in rec.fields]
    elif edit == "field_name":
        rec.fields = [("alpha2" if n == "alpha" else n, t) for n, t in rec.fields]
    elif edit == "make_optional":
        rec.fields = [(n, M.Opt(t) if n == "gamma" else t) for n, t in rec.fields]
    elif edit in ("imported_shadowed_type", "imported_type"):
        lib = [p for p in b.imports if p.namespace == "Steerlib"][0]
        r = lib.find("SteerShadow" if edit == "imported_shadowed_type" else "SteerPlain")
        r.fields = [(n, M.Prim("float32") if n == "value" else t) for n, t in r.fields]
    elif edit == "generic_argument":
        for d in b.defs():
            if isinstance(d, M.Protocol):
                d.steps = [(n, M.Named("SteerGenQ", (M.Prim("uint32"),)) if n == "steergen" else t, st) for n, t, st in d.steps]
    elif edit == "map_key":
        rec.fields = [(n, M.Map(M.Prim("string"), M.Prim("int64")) if n == "eta" else t) for n, t in rec.fields]
    return b


def reachable_defs(pkg, proto):
    """[(package, definition)] of every named type the protocol's steps reach: through fields, alias targets, union
    cases, containers and - separately at every use - generic type arguments."""
    env = M.Env(pkg)
    seen, order = set(), []

    def walk(t, ns):
        if isinstance(t, M.Named):
            tns = t.ns or ns
            d = env.by_ns[tns].find(t.name)
            for a in t.args:
                walk(a, ns)
            if d is None or (tns, t.name) in seen:
                return
            seen.add((tns, t.name))
            order.append((env.by_ns[tns], d))
            if isinstance(d, M.Record):
                for _, ft in d.fields:
                    walk(ft, tns)
            elif isinstance(d, M.Alias):
                walk(d.type, tns)
        elif isinstance(t, M.Opt):
            walk(t.inner, ns)
        elif isinstance(t, M.Union):
            for _, c in t.cases:
                walk(c, ns)
        elif isinstance(t, (M.Vec, M.Arr)):
            walk(t.inner, ns)
        elif isinstance(t, M.Map):
            walk(t.key, ns); walk(t.value, ns)

    for _, t, _ in proto.steps:
        walk(t, pkg.namespace)
    return order


OTHER_PRIM = {"int8": "int16", "uint8": "uint16", "int16": "int32", "uint16": "uint32", "int32": "int64", "uint32": "uint64", "int64": "int32",
              "uint64": "uint32", "size": "uint32", "float32": "float64", "float64": "float32", "bool": "uint8", "string": "int32",
              "complexfloat32": "complexfloat64", "complexfloat64": "complexfloat32", "date": "datetime", "time": "datetime", "datetime": "date"}


def random_wire_edit(pkg, rng):
    """A copy of pkg in which one definition that some protocol reaches - chosen at random among all of them, however
    it is reached - differs in one detail that the schema has to show: the type, name or order of record fields, an
    added field, an enum symbol or value, the target of an alias.  Returns (copy, description) or (None, None); the
    description starts with "<namespace>.<definition>:"."""
    b = copy.deepcopy(pkg)
    protos = [d for d in b.defs() if isinstance(d, M.Protocol)]
    proto = rng.choice(protos)
    defs = reachable_defs(b, proto)
    rng.shuffle(defs)
    for owner, d in defs:
        where = "%s.%s" % (owner.namespace, d.name)
        if isinstance(d, M.Record):
            plain = [k for k, (n, t) in enumerate(d.fields) if isinstance(t, M.Prim) and t.name in OTHER_PRIM]
            opts = ["add_field"]
            if not d.computed:
                if plain:
                    opts += ["retype", "retype"]
                if len(d.fields) >= 2:
                    opts.append("swap")
                opts.append("rename")
            op = rng.choice(opts)
            if op == "retype":
                k = rng.choice(plain)
                n, t = d.fields[k]
                d.fields[k] = (n, M.Prim(OTHER_PRIM[t.name]))
                return b, "%s: field %s %s -> %s" % (where, n, t.name, OTHER_PRIM[t.name])
            if op == "swap":
                k = rng.randrange(len(d.fields) - 1)
                d.fields[k], d.fields[k + 1] = d.fields[k + 1], d.fields[k]
                return b, "%s: fields %s and %s swapped" % (where, d.fields[k][0], d.fields[k + 1][0])
            if op == "rename":
                k = rng.randrange(len(d.fields))
                n, t = d.fields[k]
                d.fields[k] = (n + "Zq", t)
                return b, "%s: field %s renamed" % (where, n)
            d.fields.append(("addedZq", M.Prim("int32")))
            return b, "%s: field added" % where
        if isinstance(d, M.Enum):
            k = rng.randrange(len(d.values))
            sym, v = d.values[k]
            d.values[k] = (sym + "Zq", v)
            return b, "%s: symbol %s renamed" % (where, sym)
        if isinstance(d, M.Alias) and isinstance(d.type, M.Prim) and d.type.name in OTHER_PRIM:
            old = d.type.name
            d.type = M.Prim(OTHER_PRIM[old])
            return b, "%s: alias target %s -> %s" % (where, old, OTHER_PRIM[old])
    return None, None


def uvlen(n):
    b = bytearray(); R.put_uvarint(b, n); return len(b)


def header_faults(data, schema, rng, quick):
    """[(description, class, mutated bytes)] — single-bit flips and byte substitutions inside the binary header."""
    slen = len(schema.encode())
    lv = uvlen(slen)
    out = []
    regions = [("magic", 0, 5), ("version", 5, 9), ("schema_length", 9, 9 + lv)]
    for name, a, b in regions:
        for pos in range(a, b):
            for bit in range(8):
                m = bytearray(data); m[pos] ^= 1 << bit
                out.append(("flip bit %d of byte %d (%s)" % (bit, pos, name), "flip_" + name, bytes(m)))
            for _ in range(1 if quick else 3):
                v = rng.randint(0, 255)
                if v != data[pos]:
                    m = bytearray(data); m[pos] = v
                    out.append(("byte %d (%s) := 0x%02x" % (pos, name, v), "subst_" + name, bytes(m)))
    hs = 9 + lv
    for _ in range(6 if quick else 40):
        pos = rng.randint(hs, hs + slen - 1)
        bit = rng.randint(0, 7)
        m = bytearray(data); m[pos] ^= 1 << bit
        out.append(("flip bit %d of schema byte %d" % (bit, pos - hs), "flip_schema_text", bytes(m)))
    # schema replaced by a proper prefix of itself / extended by one byte (length adjusted): "compared by prefix" bugs
    sb = schema.encode()
    for cut in ([0, 1, slen - 1, slen // 2] if slen > 2 else []):
        hdr = bytearray(data[:9]); R.put_uvarint(hdr, cut)
        out.append(("schema truncated to %d of %d bytes, length field adjusted" % (cut, slen), "schema_prefix", bytes(hdr) + sb[:cut] + data[hs + slen:]))
    for variant in (b"{}", b"null", b'""'):
        hdr = bytearray(data[:9]); R.put_uvarint(hdr, len(variant))
        out.append(("schema replaced by %r" % (variant,), "degenerate_schema", bytes(hdr) + variant + data[hs + slen:]))
    hdr = bytearray(data[:9]); R.put_uvarint(hdr, slen + 1)
    out.append(("schema extended by one byte", "schema_extended", bytes(hdr) + sb + b" " + data[hs + slen:]))
    # the schema of a *different* protocol that is still well-formed JSON: one token of the text replaced (a primitive type,
    # a name), length field adjusted - what a comparison on anything but the whole text could let through
    for what, new_schema in schema_token_variants(schema, rng, 2 if quick else 6):
        nb_ = new_schema.encode()
        hdr = bytearray(data[:9]); R.put_uvarint(hdr, len(nb_))
        out.append((what, "schema_token_replaced", bytes(hdr) + nb_ + data[hs + slen:]))
    return out


TOKEN_SWAPS = [('"int32"', '"int64"'), ('"int64"', '"int32"'), ('"uint8"', '"int8"'), ('"float32"', '"float64"'), ('"float64"', '"float32"'), ('"string"', '"int32"'),
               ('"uint16"', '"uint32"'), ('"bool"', '"uint8"'), ('"uint64"', '"int64"'), ('"int16"', '"uint16"')]


def schema_token_variants(schema, rng, n):
    """[(description, schema text)]: well-formed variants of the schema that describe another protocol."""
    import re
    out = []
    swaps = [(a, b) for a, b in TOKEN_SWAPS if a in schema]
    rng.shuffle(swaps)
    for a, b in swaps[:n]:
        k = rng.randrange(schema.count(a))
        pos = -1
        for _ in range(k + 1):
            pos = schema.index(a, pos + 1)
        out.append(("schema with %s replaced by %s at offset %d" % (a, b, pos), schema[:pos] + b + schema[pos + len(a):]))
    names = re.findall(r'"name":"(\w+)"', schema)
    if names:
        nm = rng.choice(names)
        out.append(('schema with the name "%s" changed' % nm, schema.replace('"name":"%s"' % nm, '"name":"%sX"' % nm, 1)))
    return out


def py_refuses(model, proto, fmt, stream):
    """'' if the reader raised before delivering anything, else what went wrong."""
    try:
        with runner.time_limit(20):
            d, err, closed = P.read_all(model, proto, fmt, stream)
    except runner.Hang:
        return "reader did not terminate"
    if err is None:
        return "foreign/corrupt stream was read to completion without error (%d values delivered)" % len(d)
    if d:
        return "%d values were delivered before the error %r" % (len(d), err)
    return ""


def cpp_accepted(res):
    """'' if the C++ relay refused the stream before delivering anything, else what went wrong."""
    if res.get("crashed"):
        return "reader crashed or hung: " + res.get("stderr", "")[-200:]
    if res["ok"]:
        return "foreign/corrupt stream was relayed to completion without error"
    if res.get("phase") == "construct_writer":
        return "the reader accepted the header (the relay failed later, constructing its writer: %s)" % res.get("what")
    lines = [l for l in bytes.fromhex(res["out"]).decode("utf-8", "replace").split("\n")[1:] if l.strip()]
    if lines and not res["out"].startswith("7961"):      # (binary output: not counted in lines)
        return "%d values were delivered before the error %s" % (len(lines), res.get("what"))
    return ""


def doc(model_b, proto, ctx, what, detail, payload_hex=None, fmt="binary", lang="python"):
    return {"kind": "c15", "pkg": sw.pack_pkg(model_b.pkg), "files": M.render_tree(model_b.pkg, ""), "protocol": proto.name, "what": what, "detail": detail[:500],
            "payload_hex": payload_hex, "format": fmt, "lang": lang, "seed": ctx["seed"], "model_index": ctx["i"]}


def _sanitize(task):
    """The C++ readers of the thorough tier are built with AddressSanitizer + UBSan: a reader that reads past a corrupted length
    ends the harness process, which is judged as a crash.  VERIF_C15_SANITIZE=1/0 overrides the tier."""
    v = os.environ.get("VERIF_C15_SANITIZE")
    return (v == "1") if v in ("0", "1") else task["tier"] != "quick"


def run_twin(task, rng, pkg_b, edit, a_streams, want_cpp, ybin, root, quick, stats, viols, cases, only_misdelivery=False):
    i = task["i"]
    try:
        model = P.PyModel(pkg_b, ybin, root, want_cpp=want_cpp, cpp_opts=C.CPP_OPTS)
    except P.GeneratorRejected:          # the twin is not a package yardl accepts after all
        if only_misdelivery:
            stats["random_twin_rejected(discarded)"] = stats.get("random_twin_rejected(discarded)", 0) + 1
            return
        raise
    try:
        cm = None
        if want_cpp:
            try:
                cm = C.CppModel(model.dir, sanitize=_sanitize(task))
            except C.GeneratedCodeDoesNotCompile:
                stats["generated_cpp_did_not_compile(discarded)"] = 1
        env, ns = model.env, pkg_b.namespace
        codec = R.Codec(env)
        protos = model.protocols()
        own = {}
        for proto in protos:
            r = rng.fork("bvals", proto.name)
            vals = sw.gen_values(env, ns, proto, r, finite=True, items=(1, 3))
            own[proto.name] = (codec.encode_stream(proto, ns, model.schema(proto), vals), codec.encode_ndjson(proto, ns, model.schema(proto), vals), vals)
        cpp_jobs = []   # (protocol, what, class, fmt, payload bytes)
        for proto in protos:
            schema = model.schema(proto)
            data, text, vals = own[proto.name]
            # positive control
            d, err, closed = P.read_all(model, proto, "binary", io.BytesIO(data))
            stats["runs"] = stats.get("runs", 0) + 1
            if err is not None:
                stats["baseline_unreadable(skipped)"] = stats.get("baseline_unreadable(skipped)", 0) + 1
                continue
            jobs = []   # (what, class, fmt, payload)
            touched = True
            if only_misdelivery:
                # the random twin differs in one definition: only protocols that reach it have a different schema
                ens, ename = edit[len("random: "):].split(":", 1)[0].split(".", 1)
                touched = any(o.namespace == ens and d_.name == ename for o, d_ in reachable_defs(pkg_b, proto))
            if proto.name in a_streams and touched:
                # every protocol carries the steering steps, so A and B always differ in how some value is
                # encoded; if their schema texts are nevertheless equal the reader has no way to refuse, and
                # that is exactly "decoding a foreign stream as if it were its own"
                if a_streams[proto.name][2] == schema:
                    stats["near_identical_models_with_identical_schema_text"] = stats.get("near_identical_models_with_identical_schema_text", 0) + 1
                mcls = "misdelivery_enum_vs_flags" if edit == "enum_to_flags" else "misdelivery_near_identical"
                jobs.append(("stream of the near-identical protocol (%s) delivered" % edit, mcls, "binary", a_streams[proto.name][0]))
                jobs.append(("NDJSON stream of the near-identical protocol (%s) delivered" % edit, mcls, "ndjson", a_streams[proto.name][1]))
                if len(a_streams[proto.name]) > 3 and a_streams[proto.name][3] is not None:
                    jobs.append(("stream written by the near-identical model's own C++ writer (%s) delivered" % edit, mcls, "binary", a_streams[proto.name][3]))
            for other in ([] if only_misdelivery else protos):
                if other.name != proto.name:
                    sib = other.name == proto.name + SIBLING or proto.name == other.name + SIBLING or other.name.lower() == proto.name.lower()
                    cls = "misdelivery_sibling_protocol" if sib else "misdelivery_unrelated"
                    jobs.append(("stream of %s protocol %s delivered" % ("sibling" if sib else "unrelated", other.name), cls, "binary", own[other.name][0]))
                    jobs.append(("NDJSON stream of %s protocol %s delivered" % ("sibling" if sib else "unrelated", other.name), cls, "ndjson", own[other.name][1]))
            for what, cls, mutated in ([] if only_misdelivery else header_faults(data, schema, rng.fork("hf", proto.name), quick)):
                jobs.append((what, cls, "binary", mutated))
            # NDJSON header line corruptions
            raw = text.encode("utf-8")
            nl = raw.index(b"\n")
            rr = rng.fork("nd", proto.name)
            for _ in range(0 if only_misdelivery else (8 if quick else 60)):
                pos, bit = rr.randint(0, nl - 1), rr.randint(0, 7)
                m = bytearray(raw); m[pos] ^= 1 << bit
                try:
                    same = json.loads(bytes(m[:nl]).decode("utf-8")) == json.loads(raw[:nl].decode("utf-8"))
                except (ValueError, UnicodeDecodeError):
                    same = False
                if same:
                    stats["benign_corruption(skipped)"] = stats.get("benign_corruption(skipped)", 0) + 1
                    continue
                jobs.append(("flip bit %d of NDJSON header byte %d" % (bit, pos), "flip_ndjson_header", "ndjson", bytes(m)))
            if not only_misdelivery:
                for ver_ in (b"2", b"0", b"1.5", b"1.999", b"4294967297", b"-4294967295", b"true", b'"1"', b"null", b"[1]"):
                    jobs.append(("NDJSON header with version %s" % ver_.decode(), "ndjson_version", "ndjson", raw.replace(b'"version":1', b'"version":' + ver_, 1)))
                body = raw[nl:]
                hj = json.loads(raw[:nl].decode("utf-8"))
                variants = [("NDJSON header without the version", {"yardl": {"schema": hj["yardl"]["schema"]}}),
                            ("NDJSON header without the schema", {"yardl": {"version": hj["yardl"]["version"]}}),
                            ("NDJSON header with a null schema", {"yardl": {"version": hj["yardl"]["version"], "schema": None}}),
                            ("NDJSON header under another key", {"yardlx": hj["yardl"]}),
                            ("NDJSON header that is an empty object", {})]
                for what_, new_schema in schema_token_variants(schema, rr, 2 if quick else 6):
                    variants.append(("NDJSON header: " + what_, {"yardl": {"version": hj["yardl"]["version"], "schema": json.loads(new_schema)}}))
                for what_, hv in variants:
                    jobs.append((what_, "ndjson_header_structure", "ndjson", json.dumps(hv, separators=(",", ":")).encode("utf-8") + body))
            for what, cls, fmt, payload in jobs:
                stats["runs"] += 1
                stats[cls] = stats.get(cls, 0) + 1
                if fmt == "binary":
                    stream = io.BytesIO(payload)
                else:
                    stream = P.text_input_bytes(payload if isinstance(payload, bytes) else payload.encode("utf-8"))
                why = py_refuses(model, proto, fmt, stream)
                if why:
                    viols.append(({"class": "foreign_or_corrupt_stream_accepted", "lang": "python", "format": fmt, "fault": cls},
                                  doc(model, proto, task, what, why, (payload if isinstance(payload, bytes) else payload.encode()).hex(), fmt, "python")))
                if cm is not None:
                    pb = payload if isinstance(payload, bytes) else payload.encode("utf-8")
                    cpp_jobs.append((proto, what, cls, fmt, pb))
            if cm is not None:
                # positive controls for C++ as well: the protocol's own streams in both formats
                cpp_jobs.append((proto, "own binary stream", "control", "binary", data))
                cpp_jobs.append((proto, "own NDJSON stream", "control_ndjson", "ndjson", raw))
            cases.append((["c15", i, proto.name, edit], len(jobs) > 2))
        if cm is not None and cpp_jobs:
            # One process per model, the readers of all its protocols opened in a seeded order: whatever a reader
            # instance leaves behind in the process (caches, statics) is part of the state the next one starts from.
            rng.fork("cpporder").shuffle(cpp_jobs)
            inputs = [pb for _, _, _, _, pb in cpp_jobs]
            # (values delivered are observed as NDJSON lines; a stream that a C++ writer produced is relayed to binary instead: the
            #  NDJSON writer parses the schema constant of the generated code, and this must not stand in the reader's way)
            runs = [{"proto": p.name, "op": "relay", "in_fmt": fmt, "out_fmt": "binary" if "own C++ writer" in what_ else "ndjson", "input": k} for k, (p, what_, _, fmt, _) in enumerate(cpp_jobs)]
            results = cm.run_plan(inputs, runs, timeout=300)
            ctrl_ok = {}
            for res, (p, what, cls, fmt, pb) in zip(results, cpp_jobs):
                if cls == "control":
                    ctrl_ok[p.name] = bool(res is not None and not res.get("crashed") and res.get("ok"))
            for k, (res, (p, what, cls, fmt, pb)) in enumerate(zip(results, cpp_jobs)):
                if cls.startswith("control"):
                    continue
                if not ctrl_ok.get(p.name) and not cls.startswith("misdelivery"):
                    # (a foreign stream that is accepted is a violation whether or not the reader manages its own reference stream;
                    #  a corrupted own stream is only judged when the intact one is readable)
                    stats["cpp_baseline_unreadable(skipped)"] = stats.get("cpp_baseline_unreadable(skipped)", 0) + 1
                    continue
                stats["runs"] += 1
                stats["cpp_" + cls] = stats.get("cpp_" + cls, 0) + 1
                if res is None:
                    continue
                why = cpp_accepted(res)
                if why:
                    d = doc(model, p, task, what, why, pb.hex(), fmt, "cpp")
                    # does it need the readers opened earlier in the same process?
                    alone = cm.run_plan([pb], [{"proto": p.name, "op": "relay", "in_fmt": fmt, "out_fmt": "ndjson", "input": 0}])[0]
                    if not (alone is not None and cpp_accepted(alone)):
                        d["history"] = [[q.name, f2, b2.hex()] for (q, _, _, f2, b2) in cpp_jobs[:k]]
                    viols.append(({"class": "foreign_or_corrupt_stream_accepted", "lang": "cpp", "format": fmt, "fault": cls, "needs_earlier_readers": "history" in d}, d))
    finally:
        model.close()


def versioned_task(task, ybin, root):
    """Readers that have registered previous versions (C++ only; the Python back end registers none).  The newest
    package of a seeded version chain is generated for C++ and Python.  Its C++ reader must accept a stream that
    carries a registered previous version's schema (control) and must refuse (a) the stream of a twin of that previous
    version - one random schema-relevant edit apart, and neither the current nor any registered schema - and (b) the
    previous version's stream with a bit of its schema text flipped.  The Python reader of the newest package must
    refuse the previous version's stream outright."""
    from gen import edits as E
    import importlib
    C05 = importlib.import_module("checks.C05")
    seed, i, quick = task["seed"], task["i"], task["tier"] == "quick"
    rng = M.derive(seed, "c15v", i)
    newest = C05.make_chain(rng.fork("chain"))
    stats, viols, cases = {"models_with_cpp": 1, "versioned_models": 1}, [], []
    model, old_models = C05.open_models(newest, ybin, root)     # raises GeneratorRejected if yardl rejects the chain
    try:
        try:
            cm = C.CppModel(model.dir, sanitize=_sanitize(task))
        except C.GeneratedCodeDoesNotCompile:
            stats["generated_cpp_did_not_compile(discarded)"] = 1
            return {"stats": stats, "violations": [], "cases": [], "samples": []}
        ns = newest.namespace
        registered = {}          # protocol -> set of schema texts the newest reader knows
        for proto in model.protocols():
            registered[proto.name] = {model.schema(proto)} | {sch[proto.name] for (_, _, sch) in old_models.values() if proto.name in sch}
        jobs = []                # (proto, what, class, payload, is_control)
        for label, (old_pkg, old_env, old_schemas) in old_models.items():
            r = rng.fork("old", label)
            codec_old = R.Codec(old_env)
            # a twin of the old version
            twin_pkg, twin_edit = random_wire_edit(old_pkg, r.fork("twin"))
            twin_schemas, twin_env = {}, None
            if twin_pkg is not None:
                tp = copy.deepcopy(twin_pkg)
                tp.dirname, tp.versions = "pkg", []
                try:
                    tm = P.PyModel(tp, ybin, root)
                    try:
                        twin_schemas = {p.name: tm.schema(p) for p in tm.protocols()}
                    finally:
                        tm.close()
                    twin_env = M.Env(twin_pkg)
                except P.GeneratorRejected:
                    stats["random_twin_rejected(discarded)"] = stats.get("random_twin_rejected(discarded)", 0) + 1
            for proto in model.protocols():
                old_proto = old_pkg.find(proto.name)
                if old_proto is None or proto.name not in old_schemas:
                    continue
                vals = sw.gen_values(old_env, ns, old_proto, r.fork("v", proto.name), finite=True, items=(1, 3))
                data = codec_old.encode_stream(old_proto, ns, old_schemas[proto.name], vals)
                jobs.append((proto, "stream of registered previous version %s" % label, "control_previous_version", data, True))
                if old_schemas[proto.name] != model.schema(proto):
                    jobs.append((proto, "python reader given the stream of previous version %s" % label, "python_previous_version", data, False))
                sb = old_schemas[proto.name].encode()
                hs = 9 + uvlen(len(sb))
                for _ in range(3 if quick else 12):
                    pos, bit = r.randint(hs, hs + len(sb) - 1), r.randint(0, 7)
                    mm = bytearray(data); mm[pos] ^= 1 << bit
                    jobs.append((proto, "previous version %s: flip bit %d of schema byte %d" % (label, bit, pos - hs), "flip_previous_schema_text", bytes(mm), False))
                # degenerate schema texts (nothing, one byte, the smallest JSON documents) in front of the previous version's values
                for variant in (b"", sb[:1], b"{}", b"null", b'""'):
                    hdr = bytearray(data[:9]); R.put_uvarint(hdr, len(variant))
                    jobs.append((proto, "previous version %s: schema replaced by %r" % (label, variant), "degenerate_schema", bytes(hdr) + variant + data[hs + len(sb):], False))
                tproto = twin_pkg.find(proto.name) if twin_pkg is not None else None
                if tproto is not None and proto.name in twin_schemas and twin_schemas[proto.name] not in registered[proto.name]:
                    tvals = sw.gen_values(twin_env, ns, tproto, r.fork("tv", proto.name), finite=True, items=(1, 3))
                    tdata = R.Codec(twin_env).encode_stream(tproto, ns, twin_schemas[proto.name], tvals)
                    jobs.append((proto, "stream of a twin of previous version %s (%s)" % (label, twin_edit), "misdelivery_near_previous_version", tdata, False))
        # python: the newest reader registers no previous version
        for proto, what, cls, payload, ctl in jobs:
            if cls != "python_previous_version":
                continue
            stats["runs"] = stats.get("runs", 0) + 1
            stats[cls] = stats.get(cls, 0) + 1
            why = py_refuses(model, proto, "binary", io.BytesIO(payload))
            if why:
                viols.append(({"class": "foreign_or_corrupt_stream_accepted", "lang": "python", "format": "binary", "fault": cls}, doc(model, proto, task, what, why, payload.hex(), "binary", "python")))
        cj = [j for j in jobs if j[2] != "python_previous_version"]
        rng.fork("order").shuffle(cj)
        runs = [{"proto": p.name, "op": "relay", "in_fmt": "binary", "out_fmt": "ndjson", "input": k} for k, (p, _, _, _, _) in enumerate(cj)]
        results = cm.run_plan([j[3] for j in cj], runs, timeout=300) if cj else []
        ctrl_ok = {}
        for res, (p, what, cls, pb, ctl) in zip(results, cj):
            if ctl:
                ok = bool(res is not None and not res.get("crashed") and res.get("ok"))
                ctrl_ok[p.name] = ctrl_ok.get(p.name, True) and ok
                stats["previous_version_stream_accepted(control)" if ok else "previous_version_stream_not_readable(C05's business, skipped)"] = \
                    stats.get("previous_version_stream_accepted(control)" if ok else "previous_version_stream_not_readable(C05's business, skipped)", 0) + 1
        for k, (res, (p, what, cls, pb, ctl)) in enumerate(zip(results, cj)):
            if ctl or not ctrl_ok.get(p.name):
                continue
            stats["runs"] = stats.get("runs", 0) + 1
            stats["cpp_" + cls] = stats.get("cpp_" + cls, 0) + 1
            if res is None:
                continue
            why = cpp_accepted(res)
            if why:
                d = doc(model, p, task, what, why, pb.hex(), "binary", "cpp")
                d["versioned"] = True
                viols.append(({"class": "foreign_or_corrupt_stream_accepted", "lang": "cpp", "format": "binary", "fault": cls, "needs_earlier_readers": False}, d))
        for proto in model.protocols():
            cases.append((["c15v", i, proto.name], True))
    finally:
        model.close()
    seen, out = set(), []
    for rec, d in viols:
        k = (rec["lang"], rec["format"], rec["fault"])
        if k not in seen:
            seen.add(k)
            out.append((rec, d))
    return {"stats": stats, "violations": out[:6], "cases": cases,
            "samples": [{"model_index": i, "versioned": True, "versions_as_listed": [l for l, _ in newest.versions]}]}


def model_task(task, ybin, root):
    seed, i, quick = task["seed"], task["i"], task["tier"] == "quick"
    if i % 16 == 7:
        return watch_task(task, ybin, root)
    if i % 4 == 3:
        return versioned_task(task, ybin, root)
    rng = M.derive(seed, "c15", i)
    want_cpp = (i % 5 == 0) if quick else (i % 2 == 0)
    cfg = M.GenConfig.swarm(rng.fork("cfg"))
    cfg.n_protocols = (1, 2)        # plus the sibling of the first one
    if want_cpp:
        cfg.time_types = False
    pkg_a = sw.stream_package(rng.next(), cfg=cfg, pad=False, for_cpp=want_cpp)
    add_steering(pkg_a)
    if rng.fork("bigschema").chance(0.6 if want_cpp else 0.15):
        # a schema text of some twenty kilobytes (an enumeration with several hundred symbols that sorts before everything
        # else): what distinguishes the near-identical model then lies far into the text
        fn_ = sorted(pkg_a.files)[0]
        # (for one in three of them beyond 64 KiB: generated files carry the schema text on one line)
        huge_ = rng.fork("hugeschema").chance(0.35)
        pkg_a.files[fn_].append(M.Enum("AaaBigCodes", "uint16", [("code%04d" % k_, k_) for k_ in range(rng.fork("bigschema2").randint(2400, 3000) if huge_ else rng.fork("bigschema2").randint(620, 900))]))
        rq_ = pkg_a.find("SteerRecQ")
        rq_.fields.insert(0, ("code", M.Named("AaaBigCodes")))
        stats_big = True
    else:
        stats_big = False
    # the definitions the near-identical model differs in carry documentation comments in half of the models
    if rng.fork("doccomments").chance(0.5):
        for nm_, txt_ in (("SteerEnumQ", "how the sample was acquired"), ("SteerRecQ", "one sample")):
            if pkg_a.find(nm_) is not None:
                pkg_a.find(nm_).comment = txt_
    edit = rng.choice(EDITS)
    pkg_b = near_identical(pkg_a, edit)
    # the reader of the near-identical model is, half of the time, generated into the directory that holds the output of the
    # other model: the one was made from the other by an edit, and that is where an edited model is generated to
    over_ = rng.fork("generatedover").chance(0.5)
    if over_:
        import copy as _copy
        pkg_b.generated_over = _copy.deepcopy(pkg_a)
    stats, viols, cases = {"models_with_cpp": 1 if want_cpp else 0, "edit_" + edit: 1, "models_with_a_schema_text_of_some_20_kB": 1 if stats_big else 0,
                           "models_with_a_schema_text_beyond_64_KiB": 1 if (stats_big and huge_) else 0, "twin_generated_over_the_output_of_the_other_model": 1 if over_ else 0}, [], []
    # model A: only its schemas are needed (its streams come from the reference encoder)
    # (for C++ models also what model A's *own generated C++ writer* puts at the head of a stream: default values written
    #  through a call script - the header a C++ reader meets in practice is one a C++ writer emitted, not the reference text)
    model_a = P.PyModel(pkg_a, ybin, root, want_cpp=want_cpp, cpp_opts=C.CPP_OPTS)
    try:
        env_a = model_a.env
        codec_a = R.Codec(env_a)
        a_streams = {}
        cm_a = None
        if want_cpp:
            try:
                cm_a = C.CppModel(model_a.dir)
            except C.GeneratedCodeDoesNotCompile:
                cm_a = None
        for proto in model_a.protocols():
            r = rng.fork("avals", proto.name)
            vals = sw.gen_values(env_a, pkg_a.namespace, proto, r, finite=True, items=(1, 3))
            cppw = None
            if cm_a is not None and proto.name in cm_a.copyto:
                script = [["mkW", "binary"]] + [(["E", k_] if st_ else ["W1", k_]) for k_, (_, _, st_) in enumerate(proto.steps)] + [["CW"]]
                res_ = cm_a.run_plan([b""], [{"proto": proto.name, "op": "script", "input": 0, "script": script}], timeout=120)[0]
                if res_ is not None and not res_.get("crashed") and res_.get("ok") and all(c_.get("r") == "ok" for c_ in res_.get("calls", [])):
                    cppw = bytes.fromhex(res_["out"])
                    stats["streams_written_by_the_twin_models_own_cpp_writer"] = stats.get("streams_written_by_the_twin_models_own_cpp_writer", 0) + 1
            a_streams[proto.name] = (codec_a.encode_stream(proto, pkg_a.namespace, model_a.schema(proto), vals),
                                     codec_a.encode_ndjson(proto, pkg_a.namespace, model_a.schema(proto), vals), model_a.schema(proto), cppw)
    finally:
        model_a.close()
    run_twin(task, rng, pkg_b, edit, a_streams, want_cpp, ybin, root, quick, stats, viols, cases)
    # a second twin: one random schema-relevant edit in a random definition that a protocol reaches (however it is reached)
    pkg_c, edit_c = random_wire_edit(pkg_a, rng.fork("wire"))
    if pkg_c is not None:
        stats["random_twin"] = 1
        if over_:
            pkg_c.generated_over = _copy.deepcopy(pkg_a)
        run_twin(task, rng.fork("twin2"), pkg_c, "random: " + edit_c, a_streams, want_cpp, ybin, root, quick, stats, viols, cases, only_misdelivery=True)
    seen, out = set(), []
    for rec, d in viols:
        k = (rec["lang"], rec["format"], rec["fault"])
        if k not in seen:
            seen.add(k)
            out.append((rec, d))
    return {"stats": stats, "violations": out[:6], "cases": cases,
            "samples": [{"model_index": i, "near_identical_edit": edit, "cpp": want_cpp, "faults_per_protocol": "misdelivery + header flips/substitutions + NDJSON header flips"}]}


def replay_doc(d, ybin, root):
    if d.get("kind") == "watch":
        import importlib
        W = importlib.import_module("checks.C20")
        from toolworld import tw
        viol, st = W.execute(tw.Sim(os.environ.get("VERIF_REPO", "/repo")), d)
        hit = viol is not None and viol.get("class") == "not_converged"
        return hit, str(viol)
    pkg = sw.unpack_pkg(d["pkg"])
    want_cpp = d["lang"] == "cpp"
    model = P.PyModel(pkg, ybin, root, want_cpp=want_cpp or bool(pkg.versions), cpp_opts=C.CPP_OPTS)
    try:
        proto = [p for p in model.protocols() if p.name == d["protocol"]][0]
        payload = bytes.fromhex(d["payload_hex"])
        if not want_cpp:
            stream = io.BytesIO(payload) if d["format"] == "binary" else P.text_input_bytes(payload)
            why = py_refuses(model, proto, d["format"], stream)
            return bool(why), why
        cm = C.CppModel(model.dir)
        hist = d.get("history") or []
        inputs = [bytes.fromhex(h[2]) for h in hist] + [payload]
        runs = [{"proto": h[0], "op": "relay", "in_fmt": h[1], "out_fmt": "ndjson", "input": k} for k, h in enumerate(hist)]
        runs.append({"proto": proto.name, "op": "relay", "in_fmt": d["format"], "out_fmt": "ndjson", "input": len(hist)})
        res = cm.run_plan(inputs, runs, timeout=300)[-1]
        why = cpp_accepted(res) if res is not None else ""
        return bool(why), why or "refused: %s" % (res or {}).get("what")
    finally:
        model.close()


def watch_task(task, ybin, root):
    """Readers generated by a long-lived `yardl generate --watch` process: after the model files were edited, the protocol
    classes on disk (which carry the schema a reader compares stream headers with) must be those a one-shot generation of the
    final model writes - a reader that still carries an earlier model's schema accepts that model's streams and decodes them
    with the new serializers.  Runs C20's workloads in the simulated OS; only differences in files that define protocol
    readers / writers are reported here."""
    import importlib
    W = importlib.import_module("checks.C20")
    from toolworld import tw
    seed, i = task["seed"], task["i"]
    sim = tw.Sim(os.environ.get("VERIF_REPO", "/repo"))
    stats, viols, cases = {"watch_sessions": 0}, [], []
    for j in range(12 if task["tier"] == "quick" else 40):
        doc_ = W.make_case(M.derive(seed, "c15watch", i).next() % (1 << 40), i * 1000 + j)
        if doc_["case"].get("ends_invalid"):
            continue
        viol, st = W.execute(sim, doc_)
        stats["watch_sessions"] += 1
        stats["runs"] = stats.get("runs", 0) + st.get("runs", 1)
        if viol is not None and viol.get("class") == "not_converged":
            hit = [q for q in st.get("diff_paths", []) if any(x in q.rsplit("/", 1)[-1] for x in ("protocols.", "ReaderBase", "WriterBase", "Reader.m", "Writer.m", "model.json"))]
            if hit:
                viols.append(({"class": "reader_generated_in_watch_mode_differs_from_one_shot", "lang": "any", "format": "any", "fault": "model_edited_while_watching"},
                              dict(doc_, kind="watch", first=hit[0])))
                break
        cases.append((["c15w", i, j], True))
    return {"stats": stats, "violations": viols, "cases": cases, "samples": []}


def main():
    runner.run(PROP, "fault_enumeration", "checks.C15", quick_models=32, max_reject=0.4, thorough_budget=1500,
               rule=("one case = one protocol of a generated model B x the enumerated fault set: the stream of the near-identical protocol A (B differs from A by exactly one "
                     "wire-relevant edit: field type, order of two same-typed fields, enum base, enum value, fixed-vector length, union case order, field name, optionality, map "
                     "value type), the streams of the other protocols of B, every single-bit flip of magic / version word / schema-length varint plus seeded byte substitutions "
                     "there, seeded bit flips in the schema text, schema replaced by a proper prefix / extended by one byte, seeded bit flips in the NDJSON header line (benign ones "
                     "skipped) and an NDJSON header with another format version; python always, C++ relay for a share of the models — all C++ readers of one model are opened in one process in a seeded order, interleaved with intact streams "
                     "of every protocol in both formats (state left behind by an earlier reader instance is part of the history); distinct = (model, protocol, edit)"),
               real_code="generated Python readers (+ shipped _binary.py/_ndjson.py); generated C++ readers (+ shipped header.h, reader_writer.h)",
               stubbed="C++ nd-array header and date/date.h",
               assumptions=["a corruption after which the header is still the reader's own header by the documented format (NDJSON line parsing to the same JSON) is benign and skipped"],
               replay_fn=replay_doc, quick_budget=140,
               fault_keys=("misdelivery_near_identical", "misdelivery_enum_vs_flags", "misdelivery_unrelated", "misdelivery_sibling_protocol", "flip_magic", "flip_version", "flip_schema_length", "subst_magic", "subst_version",
                           "subst_schema_length", "flip_schema_text", "watch_sessions", "streams_written_by_the_twin_models_own_cpp_writer", "schema_prefix", "degenerate_schema", "cpp_degenerate_schema", "schema_extended", "schema_token_replaced", "flip_ndjson_header", "ndjson_version", "ndjson_header_structure",
                           "cpp_misdelivery_near_previous_version", "cpp_flip_previous_schema_text", "python_previous_version"))


if __name__ == "__main__":
    main_guard(main)
