#!/usr/bin/env python3
"""C16 — a truncated stream is reported, never mistaken for a complete one.

Fault = writer crash / dropped connection: only a prefix of the stream is durable.  Streams come
from the reference encoder (known-valid independently of yardl); every sampled cut position of
every stream is handed to the real generated reader over the simulated channel.
"""
import os, sys, io, json
sys.path.insert(0, os.path.join(os.path.dirname(os.path.abspath(__file__)), ".."))
from common.checklib import main_guard
from gen import model as M, values as V, refcodec as R
from streamworld import sw, pynode as P, cppnode as C, runner

PROP = "C16"


def cut_positions(n, marks, hdr_end, rng, quick, bigstream):
    """Cut positions: everything for small streams; for large ones all positions near value
    boundaries and near multiples of the staging-buffer size, plus a seeded sample of the rest."""
    pos = set()
    small = n <= 3000
    if small and not quick:
        return list(range(n))
    # header: magic, version, length varint completely; schema text sampled
    pos.update(range(0, min(12, n)))
    pos.update(rng.randint(12, max(12, hdr_end - 1)) for _ in range(4 if quick else 24))
    pos.update({hdr_end - 1, hdr_end})
    for m in marks:
        for d in (-2, -1, 0, 1, 2):
            if 0 <= m + d < n:
                pos.add(m + d)
    k = sw.BUF
    while k <= n + 16:
        for d in range(-16, 17):
            if 0 <= k + d < n:
                pos.add(k + d)
        k += sw.BUF
    body = n - hdr_end
    extra = min(body, 40 if quick else 600)
    for _ in range(extra):
        pos.add(rng.randint(hdr_end, n - 1))
    if small:
        pos.update(range(hdr_end, n) if not quick else [])
    if quick and len(pos) > 160:
        keep = sorted(pos)
        rng.shuffle(keep)
        pos = set(keep[:160]) | {p for p in pos if abs(p % sw.BUF) <= 1 or abs(p % sw.BUF - sw.BUF) <= 1 and p > 100}
    return sorted(p for p in pos if 0 <= p < n)


def bulk_tail_cuts(marks, n, rng, k):
    """Cut positions inside the last staging-buffer length of every value larger than the staging buffer: the part
    of it that a reader requests from the underlying stream in one go, after the part it already had buffered."""
    out = []
    ms = sorted(marks)
    for a, b in zip(ms, ms[1:]):
        if b - a > sw.BUF:
            out += [rng.randint(max(a + 1, b - sw.BUF), b - 1) for _ in range(k)]
            out += [rng.randint(max(a + 1, b - 2000), b - 1) for _ in range(2)]
    return [p for p in out if 0 <= p < n]


def pos_class(p, marks, hdr_end):
    if p < 5:
        return "cut_in_magic"
    if p < 9:
        return "cut_in_version"
    if p < hdr_end:
        return "cut_in_schema"
    if p % sw.BUF == 0:
        return "cut_at_k_times_65536"
    if p % sw.BUF in (1, sw.BUF - 1):
        return "cut_at_k_times_65536_pm1"
    if p in marks:
        return "cut_on_value_boundary"
    return "cut_inside_value"


BULK_PROTO, BULK_STEP = "SteerBulk", "bulk"
BULK_ELEM = {"float32": 4, "float64": 8, "complexfloat32": 8, "complexfloat64": 16}


def add_bulk_protocol(pkg, rng):
    """Coverage steering: a protocol with one value much larger than the staging buffer — a vector or an array of
    fixed-size numbers, or a string: the shapes for which readers have bulk paths (one read request for the rest of
    the value, straight into its destination). As the *last* step nothing is read after it that could notice a short
    read; followed by a small step, what was delivered for it can be compared."""
    elem = rng.choice(sorted(BULK_ELEM))
    kind = rng.choice(["vector", "array", "array", "string", "string"])
    t = {"vector": M.Vec(M.Prim(elem)), "array": M.Arr(M.Prim(elem), rng.choice([None, 1, 2])), "string": M.Prim("string")}[kind]
    # (before it a stream of fixed-size numbers, several to a block: readers may take whole blocks of those at once)
    steps = [(sw.PAD_STEP, M.Prim("string"), False), ("frames", M.Prim(rng.choice(["int32", "float32", "float64", "complexfloat32", "float32", "float64"])), True), (BULK_STEP, t, False)]
    if rng.chance(0.5):
        steps.append(("tail", M.Prim("int32"), rng.chance(0.5)))
    fn = sorted(pkg.files)[0]
    pkg.files[fn].append(M.Protocol(BULK_PROTO, steps))


TAGS_PROTO = "SteerTags"


def add_tags_protocol(pkg, rng):
    """Coverage steering: tens of thousands of one-byte tags.  A stream of optional small numbers longer than the staging buffer,
    every item present and most of them zero: every item boundary is a place where the next thing read is a tag byte, the
    bytes around it are 01 and 00 in turn, and what a reader that has run dry finds in its buffer is one or the other."""
    fn = sorted(pkg.files)[0]
    pkg.files[fn].append(M.Protocol(TAGS_PROTO, [(sw.PAD_STEP, M.Prim("string"), False), ("tags", M.Opt(M.Prim(rng.choice(["uint8", "int8", "uint16"]))), True),
                                                 ("after", M.Union((("int32", M.Prim("int32")), ("string", M.Prim("string"))), nullable=True), False)]))


def override_bulk(proto, vals, rng, stats):
    if proto.name == TAGS_PROTO:
        i = [k for k, s_ in enumerate(proto.steps) if s_[0] == "tags"][0]
        n = rng.randint(36000, 52000)
        vals[i] = [0 if k % 97 else (k % 5) for k in range(n)]
        vals[0] = "p" * rng.randint(0, 7)
        stats["streams_of_tens_of_thousands_of_tag_bytes"] = stats.get("streams_of_tens_of_thousands_of_tag_bytes", 0) + 1
        return
    if proto.name != BULK_PROTO:
        return
    i = [k for k, s in enumerate(proto.steps) if s[0] == BULK_STEP][0]
    fi = [k for k, s in enumerate(proto.steps) if s[0] == "frames"]
    if fi and proto.steps[fi[0]][1].name != "int32" and len(vals[fi[0]]) < 4:
        ft = proto.steps[fi[0]][1].name
        vals[fi[0]] = [((k + 0.5, -k - 0.25) if ft.startswith("complex") else k + 0.5) for k in range(rng.randint(4, 9))]
    t = proto.steps[i][1]
    nbytes = rng.choice([70 << 10, 140 << 10, rng.randint(132 << 10, 330 << 10), rng.randint(200 << 10, 330 << 10)])
    if isinstance(t, M.Prim):
        # (no NUL and no space in it: a zero-filled or missing tail changes the value)
        vals[i] = "".join("%05d|" % (k % 99991) for k in range(nbytes // 6))
        stats["bulk_string_streams"] = stats.get("bulk_string_streams", 0) + 1
        return
    elem = t.inner.name
    n = nbytes // BULK_ELEM[elem]
    one = (lambda k: float(k % 1000) + 0.25) if not elem.startswith("complex") else (lambda k: (float(k % 1000) + 0.5, -float(k % 7)))
    if isinstance(t, M.Arr):
        shape = (n,) if t.dims in (None, 1) else (n // 8, 8)
        vals[i] = ("a", shape, [one(k + 1) for k in range(shape[0] * (shape[1] if len(shape) > 1 else 1))])
        stats["bulk_array_streams"] = stats.get("bulk_array_streams", 0) + 1
        return
    vals[i] = [one(k + 1) for k in range(n)]
    stats["bulk_final_value_streams"] = stats.get("bulk_final_value_streams", 0) + 1


def check_binary(model, proto, rng, quick, stats, viols, seedinfo):
    env, ns = model.env, model.pkg.namespace
    codec = R.Codec(env)
    schema = model.schema(proto)
    hdr_end = 9 + len(_uv(len(schema.encode()))) + len(schema.encode())
    big = rng.chance(0.3)
    pad_len = None
    if big and proto.steps[0][0] == sw.PAD_STEP:
        pad_len = sw.BUF - hdr_end - 3 - rng.randint(0, 40)
    vals = sw.gen_values(env, ns, proto, rng, big=rng.chance(0.2), pad_len=pad_len, items=(0, 5))
    override_bulk(proto, vals, rng, stats)
    parts = sw.gen_partitions(proto, vals, rng)
    data = codec.encode_stream(proto, ns, schema, vals, parts)
    marks = set(codec.marks)
    flat = sw.flat_values(proto, vals)
    stats["streams"] = stats.get("streams", 0) + 1
    stats["streams_gt_64k"] = stats.get("streams_gt_64k", 0) + (1 if len(data) > sw.BUF else 0)
    # positive control: the complete stream is accepted and delivers exactly the values
    try:
        with runner.time_limit(20):
            d, err, closed = P.read_all(model, proto, "binary", io.BytesIO(data))
    except runner.Hang as e:
        d, err, closed = [], e, False       # (a reader that hangs on the intact stream: C01's business, no baseline here)
    stats["runs"] = stats.get("runs", 0) + 1
    if err is not None or not closed or sw.flat_equal(env, ns, proto, flat, d):
        # a reader that cannot read the intact stream is C01's business; C16 needs a baseline
        stats["baseline_unreadable(skipped)"] = stats.get("baseline_unreadable(skipped)", 0) + 1
        return
    tail_cuts = bulk_tail_cuts(marks, len(data), rng, 4 if quick else 12)
    stats["cuts_in_the_last_64k_of_a_bulk_value"] = stats.get("cuts_in_the_last_64k_of_a_bulk_value", 0) + len(tail_cuts)
    for p in sorted(set(cut_positions(len(data), marks, hdr_end, rng, quick, big)) | set(tail_cuts)):
        mode = rng.choice(["whole", "whole", "small", "mixed", "bytewise"] if len(data) < 5000 else ["whole", "mixed"])
        stream = P.binary_input(data[:p], rng, mode)
        cls = pos_class(p, marks, hdr_end)
        stats[cls] = stats.get(cls, 0) + 1
        stats["runs"] += 1
        stats["cuts"] = stats.get("cuts", 0) + 1
        try:
            with runner.time_limit(20):
                lenient = _LENIENT[0] = rng.fork("lenient", p).chance(0.4)
                stats["python_cuts_read_with_skip_completed_check"] = stats.get("python_cuts_read_with_skip_completed_check", 0) + (1 if lenient else 0)
                d, err, closed = P.read_all(model, proto, "binary", stream, lenient=lenient)
        except runner.Hang:
            viols.append(({"class": "reader_hangs_on_truncated_stream", "lang": "python", "format": "binary", "position_class": cls},
                          _doc(model, proto, vals, parts, p, mode, "binary", seedinfo)))
            return
        if err is None:
            viols.append(({"class": "truncation_not_reported", "lang": "python", "format": "binary", "position_class": cls},
                          _doc(model, proto, vals, parts, p, mode, "binary", seedinfo)))
            return
        why = sw.is_prefix(env, ns, proto, flat, d)
        if why:
            viols.append(({"class": "wrong_value_before_error", "lang": "python", "format": "binary", "position_class": cls, "detail": why[:200]},
                          _doc(model, proto, vals, parts, p, mode, "binary", seedinfo)))
            return


def ndjson_lines_to_flat(codec, proto, ns, text):
    """Values carried by the complete NDJSON lines after the header: [(step index, neutral value)]."""
    import json as _json
    names = {name: (i, M.qualify(t, ns)) for i, (name, t, _) in enumerate(proto.steps)}
    out = []
    lines = text.split("\n")
    for line in lines[1:]:
        if not line.strip():
            continue
        try:
            d = _json.loads(line)
        except ValueError:
            break                      # an incomplete last line is not a delivered value
        (name, j), = d.items()
        i, qt = names[name]
        out.append((i, codec.from_json(qt, j)))
    return out


def check_cpp(model, cm, proto, rng, quick, stats, viols, seedinfo):
    """C++ reader: relay binary -> NDJSON with CopyTo buffer size 1; the NDJSON lines emitted before the
    exception are the values it delivered."""
    env, ns = model.env, model.pkg.namespace
    codec = R.Codec(env)
    schema = model.schema(proto)
    hdr_end = 9 + len(_uv(len(schema.encode()))) + len(schema.encode())
    big = rng.chance(0.4)
    pad_len = None
    if big and proto.steps[0][0] == sw.PAD_STEP:
        pad_len = rng.choice([sw.BUF - hdr_end - 3 - rng.randint(0, 40), sw.BUF - hdr_end - 3, 2 * sw.BUF - hdr_end - 3 - rng.randint(0, 20)])
    vals = sw.gen_values(env, ns, proto, rng, finite=True, pad_len=pad_len, items=(0, 5))
    override_bulk(proto, vals, rng, stats)
    parts = sw.gen_partitions(proto, vals, rng)
    data = codec.encode_stream(proto, ns, schema, vals, parts)
    marks = set(codec.marks)
    flat = sw.flat_values(proto, vals)
    nb = cm.copyto[proto.name]
    cuts = cut_positions(len(data), marks, hdr_end, rng, quick, big)
    # exact multiples of the staging buffer size, if the stream is that long, are always included
    cuts = sorted(set(cuts) | {k for k in (sw.BUF, 2 * sw.BUF) if k < len(data)} | set(bulk_tail_cuts(marks, len(data), rng, 4 if quick else 12)))
    runs = [{"proto": proto.name, "op": "relay", "in_fmt": "binary", "out_fmt": "ndjson", "input": 0, "batch": [1] * nb}]
    for p in cuts:
        # mostly one item per read; now and then batch reads, which must not hand out a batch that the end of input cut short
        runs.append({"proto": proto.name, "op": "relay", "in_fmt": "binary", "out_fmt": "ndjson", "input": 0, "batch": [rng.choice([1, 1, 1, 2, 3, 7, 64])] * nb, "cut": p,
                     "chunk_mode": rng.choice([0, 0, 3, 2] if len(data) < 5000 else [0, 3]), "chunk_seed": rng.randint(1, 1 << 30)})
    results = cm.run_plan([data], runs, timeout=240)
    stats["runs"] = stats.get("runs", 0) + len(runs)
    base = results[0]
    ok = base is not None and not base.get("crashed") and base.get("ok")
    if ok:
        try:
            ok = not sw.flat_equal(env, ns, proto, flat, ndjson_lines_to_flat(codec, proto, ns, bytes.fromhex(base["out"]).decode("utf-8")), True)
        except Exception:
            ok = False
    if not ok:
        stats["cpp_baseline_unreadable(skipped)"] = stats.get("cpp_baseline_unreadable(skipped)", 0) + 1
        return
    stats["cpp_streams"] = stats.get("cpp_streams", 0) + 1
    stats["cpp_streams_gt_64k"] = stats.get("cpp_streams_gt_64k", 0) + (1 if len(data) > sw.BUF else 0)
    for p, res in zip(cuts, results[1:]):
        cls = pos_class(p, marks, hdr_end)
        stats["cpp_" + cls] = stats.get("cpp_" + cls, 0) + 1
        stats["cpp_cuts"] = stats.get("cpp_cuts", 0) + 1
        if res is None:
            continue
        d = _doc(model, proto, vals, parts, p, "whole", "binary", seedinfo)
        d["lang"] = "cpp"
        d["batch"] = runs[1 + cuts.index(p)]["batch"]
        if res.get("crashed"):
            viols.append(({"class": "reader_hangs_on_truncated_stream" if res.get("hang") else ("error_report_points_into_freed_memory" if res.get("invalid_memory") else "reader_crashed_on_truncated_stream"), "lang": "cpp", "format": "binary", "position_class": cls}, d))
            return
        if res["ok"]:
            viols.append(({"class": "truncation_not_reported", "lang": "cpp", "format": "binary", "position_class": cls}, d))
            return
        try:
            got = ndjson_lines_to_flat(codec, proto, ns, bytes.fromhex(res["out"]).decode("utf-8", "replace"))
            why = sw.is_prefix(env, ns, proto, flat, got, True)
        except Exception as e:  # noqa
            why = "values emitted before the error are not decodable: %r" % (e,)
        if why:
            viols.append(({"class": "wrong_value_before_error", "lang": "cpp", "format": "binary", "position_class": cls, "detail": why[:200]}, d))
            return


def check_ndjson(model, proto, rng, quick, stats, viols, seedinfo):
    env, ns = model.env, model.pkg.namespace
    codec = R.Codec(env)
    schema = model.schema(proto)
    vals = sw.gen_values(env, ns, proto, rng, finite=True, items=(0, 4))
    text = codec.encode_ndjson(proto, ns, schema, vals)
    raw = text.encode("utf-8")
    flat = sw.flat_values(proto, vals)
    try:
        with runner.time_limit(20):
            d, err, closed = P.read_all(model, proto, "ndjson", io.StringIO(text))
    except runner.Hang as e:
        d, err, closed = [], e, False
    stats["runs"] = stats.get("runs", 0) + 1
    if err is not None or sw.flat_equal(env, ns, proto, flat, d, True):
        stats["baseline_unreadable(skipped)"] = stats.get("baseline_unreadable(skipped)", 0) + 1
        return
    stats["ndjson_streams"] = stats.get("ndjson_streams", 0) + 1
    n = len(raw)
    hdr_end = raw.index(b"\n") + 1
    line_starts = [k + 1 for k, b in enumerate(raw) if b == 10]
    cand = set(range(0, min(n, 6))) | {hdr_end - 1, hdr_end} | {rng.randint(0, hdr_end) for _ in range(4)}
    for ls in line_starts:
        cand.update({ls - 2, ls - 1, ls, ls + 1})
    cand.update(rng.randint(hdr_end, n - 1) for _ in range(20 if quick else 300))
    for p in sorted(c for c in cand if 0 <= c < n):
        prefix = raw[:p]
        stats["runs"] += 1
        stats["ndjson_cuts"] = stats.get("ndjson_cuts", 0) + 1
        # is the prefix itself a complete document of this protocol by the documented format?
        complete = False
        try:
            ptxt = prefix.decode("utf-8")
            pv = codec.decode_ndjson(proto, ns, ptxt, schema)
            complete = True
        except (R.Truncated, R.Malformed, UnicodeDecodeError, ValueError, KeyError, TypeError):
            pass
        try:
            with runner.time_limit(20):
                lenient = _LENIENT[0] = rng.fork("lenient", p).chance(0.4)
                stats["python_cuts_read_with_skip_completed_check"] = stats.get("python_cuts_read_with_skip_completed_check", 0) + (1 if lenient else 0)
                d, err, closed = P.read_all(model, proto, "ndjson", P.text_input_bytes(prefix), lenient=lenient)
        except runner.Hang:
            viols.append(({"class": "reader_hangs_on_truncated_stream", "lang": "python", "format": "ndjson"}, _doc(model, proto, vals, None, p, "whole", "ndjson", seedinfo)))
            return
        on_line = p in line_starts
        cls = "ndjson_cut_on_line_boundary" if on_line else ("ndjson_cut_in_header" if p < hdr_end else "ndjson_cut_inside_line")
        stats[cls] = stats.get(cls, 0) + 1
        if err is None:
            if complete:
                stats["ndjson_prefix_is_complete_document"] = stats.get("ndjson_prefix_is_complete_document", 0) + 1
                viols.append(({"class": "ndjson_prefix_is_complete_document", "format": "ndjson"}, _doc(model, proto, vals, None, p, "whole", "ndjson", seedinfo)))
                continue
            viols.append(({"class": "truncation_not_reported", "lang": "python", "format": "ndjson", "position_class": cls},
                          _doc(model, proto, vals, None, p, "whole", "ndjson", seedinfo)))
            return
        why = sw.is_prefix(env, ns, proto, flat, d, True)
        if why:
            viols.append(({"class": "wrong_value_before_error", "lang": "python", "format": "ndjson", "position_class": cls, "detail": why[:200]},
                          _doc(model, proto, vals, None, p, "whole", "ndjson", seedinfo)))
            return


def check_cpp_ndjson(model, cm, proto, rng, quick, stats, viols, seedinfo):
    """C++ NDJSON reader (line reader with look-ahead): relay NDJSON -> NDJSON with CopyTo buffer size 1; the lines
    emitted before the exception are the values it delivered."""
    env, ns = model.env, model.pkg.namespace
    codec = R.Codec(env)
    schema = model.schema(proto)
    vals = sw.gen_values(env, ns, proto, rng, finite=True, items=(0, 4))
    text = codec.encode_ndjson(proto, ns, schema, vals)
    raw = text.encode("utf-8")
    flat = sw.flat_values(proto, vals)
    n = len(raw)
    hdr_end = raw.index(b"\n") + 1
    line_starts = [k + 1 for k, b in enumerate(raw) if b == 10]
    cand = set(range(0, min(n, 4))) | {hdr_end - 1, hdr_end} | {rng.randint(0, hdr_end) for _ in range(3)}
    for ls in line_starts:
        cand.update({ls - 2, ls - 1, ls, ls + 1})
    cand.update(rng.randint(hdr_end, n - 1) for _ in range(16 if quick else 200))
    cuts = sorted(c for c in cand if 0 <= c < n)
    nb = cm.copyto[proto.name]
    runs = [{"proto": proto.name, "op": "relay", "in_fmt": "ndjson", "out_fmt": "ndjson", "input": 0, "batch": [1] * nb}]
    for p in cuts:
        runs.append({"proto": proto.name, "op": "relay", "in_fmt": "ndjson", "out_fmt": "ndjson", "input": 0, "batch": [rng.choice([1, 1, 1, 2, 3, 7, 64])] * nb, "cut": p,
                     "chunk_mode": rng.choice([0, 0, 3, 2]), "chunk_seed": rng.randint(1, 1 << 30)})
    results = cm.run_plan([raw], runs, timeout=240)
    stats["runs"] = stats.get("runs", 0) + len(runs)
    base = results[0]
    ok = base is not None and not base.get("crashed") and base.get("ok")
    if ok:
        try:
            ok = not sw.flat_equal(env, ns, proto, flat, ndjson_lines_to_flat(codec, proto, ns, bytes.fromhex(base["out"]).decode("utf-8")), True)
        except Exception:
            ok = False
    if not ok:
        stats["cpp_ndjson_baseline_unreadable(skipped)"] = stats.get("cpp_ndjson_baseline_unreadable(skipped)", 0) + 1
        return
    stats["cpp_ndjson_streams"] = stats.get("cpp_ndjson_streams", 0) + 1
    for p, res in zip(cuts, results[1:]):
        cls = "ndjson_cut_on_line_boundary" if p in line_starts else ("ndjson_cut_in_header" if p < hdr_end else "ndjson_cut_inside_line")
        stats["cpp_" + cls] = stats.get("cpp_" + cls, 0) + 1
        stats["cpp_ndjson_cuts"] = stats.get("cpp_ndjson_cuts", 0) + 1
        if res is None:
            continue
        d = _doc(model, proto, vals, None, p, "whole", "ndjson", seedinfo)
        d["lang"] = "cpp"
        d["batch"] = runs[1 + cuts.index(p)]["batch"]
        if res.get("crashed"):
            viols.append(({"class": "reader_hangs_on_truncated_stream" if res.get("hang") else ("error_report_points_into_freed_memory" if res.get("invalid_memory") else "reader_crashed_on_truncated_stream"), "lang": "cpp", "format": "ndjson", "position_class": cls}, d))
            return
        if res["ok"]:
            complete = False
            try:
                codec.decode_ndjson(proto, ns, raw[:p].decode("utf-8"), schema)
                complete = True
            except (R.Truncated, R.Malformed, UnicodeDecodeError, ValueError, KeyError, TypeError):
                pass
            if complete:
                stats["ndjson_prefix_is_complete_document"] = stats.get("ndjson_prefix_is_complete_document", 0) + 1
                viols.append(({"class": "ndjson_prefix_is_complete_document", "format": "ndjson"}, d))
                continue
            viols.append(({"class": "truncation_not_reported", "lang": "cpp", "format": "ndjson", "position_class": cls}, d))
            return
        try:
            got = ndjson_lines_to_flat(codec, proto, ns, bytes.fromhex(res["out"]).decode("utf-8", "replace"))
            why = sw.is_prefix(env, ns, proto, flat, got, True)
        except Exception as e:  # noqa
            why = "values emitted before the error are not decodable: %r" % (e,)
        if why:
            viols.append(({"class": "wrong_value_before_error", "lang": "cpp", "format": "ndjson", "position_class": cls, "detail": why[:200]}, d))
            return


def _uv(v):
    b = bytearray()
    R.put_uvarint(b, v)
    return bytes(b)


_LENIENT = [False]      # the reader configuration of the run at hand (goes into the replay file)


def _doc(model, proto, vals, parts, p, mode, fmt, seedinfo):
    return {"lenient": _LENIENT[0], "kind": "c16", "pkg": sw.pack_pkg(model.pkg), "files": M.render_tree(model.pkg, ""), "protocol": proto.name, "values": sw.pack(vals),
            "partitions": sw.pack(parts), "cut": p, "chunk_mode": mode, "format": fmt, "seed": seedinfo["seed"], "model_index": seedinfo["i"],
            "values_repr": repr(vals)[:2000]}


# C++ harnesses of the thorough tier are built with AddressSanitizer + UBSan ("does not ... access invalid memory"); a report ends
# the harness process, which every judging site treats as a crash of the reader.  VERIF_C16_SANITIZE=1/0 overrides the tier.
SANITIZE = [False]


def _sanitize_for(task):
    v = os.environ.get("VERIF_C16_SANITIZE")
    SANITIZE[0] = (v == "1") if v in ("0", "1") else task["tier"] != "quick"


def versioned_task(task, ybin, root):
    """Readers that read a *previous version's* stream (C++ only): the newest package of a seeded version chain (C05's
    generator: removed / added / reordered / retyped fields, widened steps, changed named types, narrowed unions) is
    generated for C++; a stream encoded under a previous version's model is cut at every value boundary +-2 and at seeded
    positions and relayed by the newest reader.  Oracle: the intact stream is relayed without error (control); every cut
    ends in an error; the lines emitted before the error are a prefix of the lines of the intact relay."""
    import importlib
    C05 = importlib.import_module("checks.C05")
    _sanitize_for(task)
    seed, i, quick = task["seed"], task["i"], task["tier"] == "quick"
    rng = M.derive(seed, "c16v", i)
    # (always with the record whose trailing fields - a string, vectors - go away in later versions: what a reader skips at the
    #  end of an old stream is what a cut takes away first)
    newest = C05.make_chain(rng.fork("chain"), force=("tail",))
    stats, viols, cases = {"models_with_cpp": 1, "versioned_models": 1, "cpp_harnesses_built_with_ASan_and_UBSan": 1 if SANITIZE[0] else 0}, [], []
    model, old_models = C05.open_models(newest, ybin, root)
    try:
        try:
            cm = C.CppModel(model.dir, sanitize=SANITIZE[0])
        except C.GeneratedCodeDoesNotCompile:
            stats["generated_cpp_did_not_compile(discarded)"] = 1
            return {"stats": stats, "violations": [], "cases": [], "samples": []}
        ns = newest.namespace
        for label, (old_pkg, old_env, old_schemas) in old_models.items():
            for proto in model.protocols():
                old_proto = old_pkg.find(proto.name)
                if old_proto is None or proto.name not in old_schemas or viols:
                    continue
                r = rng.fork(label, proto.name)
                codec_old = R.Codec(old_env)
                vals = sw.gen_values(old_env, ns, old_proto, r, finite=True, items=(1, 4))
                parts = sw.gen_partitions(old_proto, vals, r)
                data = codec_old.encode_stream(old_proto, ns, old_schemas[proto.name], vals, parts)
                marks = sorted(set(codec_old.marks))
                nb = cm.copyto[proto.name]
                cuts = sorted({m + d for m in marks for d in (-2, -1, 0, 1, 2) if 0 <= m + d < len(data)} | {r.randint(0, len(data) - 1) for _ in range(20 if quick else 120)}
                              | (set(range(len(data))) if (len(data) <= 600 and not quick) else set()))
                if quick and len(cuts) > 120:
                    keep = list(cuts)
                    r.shuffle(keep)
                    cuts = sorted(keep[:120])
                runs = [{"proto": proto.name, "op": "relay", "in_fmt": "binary", "out_fmt": "ndjson", "input": 0, "batch": [1] * nb}]
                for p in cuts:
                    runs.append({"proto": proto.name, "op": "relay", "in_fmt": "binary", "out_fmt": "ndjson", "input": 0, "batch": [r.choice([1, 1, 2, 3, 64])] * nb, "cut": p})
                results = cm.run_plan([data], runs, timeout=240)
                stats["runs"] = stats.get("runs", 0) + len(runs)
                base = results[0]
                if base is None or base.get("crashed") or not base.get("ok"):
                    stats["previous_version_stream_not_readable(C05's business, skipped)"] = stats.get("previous_version_stream_not_readable(C05's business, skipped)", 0) + 1
                    continue
                base_lines = bytes.fromhex(base["out"]).decode("utf-8", "replace").split("\n")
                stats["cpp_previous_version_streams"] = stats.get("cpp_previous_version_streams", 0) + 1
                for p, res in zip(cuts, results[1:]):
                    stats["cpp_previous_version_cuts"] = stats.get("cpp_previous_version_cuts", 0) + 1
                    if res is None:
                        continue
                    d = {"kind": "c16v", "pkg": sw.pack_pkg(model.pkg), "files": M.render_tree(model.pkg, ""), "protocol": proto.name, "version": label, "cut": p, "payload_hex": data.hex(),
                         "seed": seed, "model_index": i, "batch": runs[1 + cuts.index(p)]["batch"]}
                    cls = "cut_on_value_boundary" if p in marks else "cut_inside_value"
                    if res.get("crashed"):
                        viols.append(({"class": "reader_hangs_on_truncated_stream" if res.get("hang") else ("error_report_points_into_freed_memory" if res.get("invalid_memory") else "reader_crashed_on_truncated_stream"), "lang": "cpp", "format": "binary(previous version)", "position_class": cls}, d))
                        break
                    if res["ok"]:
                        viols.append(({"class": "truncation_not_reported", "lang": "cpp", "format": "binary(previous version)", "position_class": cls}, d))
                        break
                    got = bytes.fromhex(res["out"]).decode("utf-8", "replace").split("\n")
                    complete = got[:-1]            # (the last element is what follows the last newline: an unfinished line or "")
                    if complete != base_lines[:len(complete)]:
                        k = next((j for j, (a, b) in enumerate(zip(complete, base_lines)) if a != b), len(base_lines))
                        viols.append(({"class": "wrong_value_before_error", "lang": "cpp", "format": "binary(previous version)", "position_class": cls,
                                       "detail": "line %d before the error differs from the intact relay" % k}, d))
                        break
                cases.append((["c16v", i, proto.name, label], True))
    finally:
        model.close()
    return {"stats": stats, "violations": viols, "cases": cases, "samples": [{"model_index": i, "versioned": True}]}


def model_task(task, ybin, root):
    _sanitize_for(task)
    seed, i, quick = task["seed"], task["i"], task["tier"] == "quick"
    if i % 6 == 3:
        return versioned_task(task, ybin, root)
    rng = M.derive(seed, "c16", i)
    want_cpp = (i % 6 == 0) if quick else (i % 2 == 0)
    cfg = M.GenConfig.swarm(rng.fork("cfg"))
    if want_cpp:
        cfg.time_types = False        # delivered values are observed as NDJSON; C++ formats dates through the stubbed date.h
    pkg = sw.stream_package(rng.next(), cfg=cfg, for_cpp=want_cpp)
    if want_cpp or i % 2 == 1:
        add_bulk_protocol(pkg, rng.fork("bulk"))
    if not want_cpp and i % 8 == 1:
        add_tags_protocol(pkg, rng.fork("tags"))
    model = P.PyModel(pkg, ybin, root, want_cpp=want_cpp, cpp_opts=C.CPP_OPTS)
    stats, viols, cases, samples = {"models_with_cpp": 1 if want_cpp else 0, "cpp_harnesses_built_with_ASan_and_UBSan": 1 if (want_cpp and SANITIZE[0]) else 0}, [], [], []
    try:
        cm = None
        if want_cpp:
            try:
                cm = C.CppModel(model.dir, sanitize=SANITIZE[0])
            except C.GeneratedCodeDoesNotCompile:
                stats["generated_cpp_did_not_compile(discarded)"] = 1
        for proto in model.protocols():
            for rep in range(2 if quick else 6):
                r = rng.fork(proto.name, rep)
                before = stats.get("runs", 0)
                check_binary(model, proto, r, quick, stats, viols, task)
                check_ndjson(model, proto, r.fork("nd"), quick, stats, viols, task)
                if cm is not None:
                    check_cpp(model, cm, proto, r.fork("cpp"), quick, stats, viols, task)
                    check_cpp_ndjson(model, cm, proto, r.fork("cppnd"), quick, stats, viols, task)
                cases.append((["c16", i, proto.name, rep], stats.get("runs", 0) - before > 2))
        samples.append({"model_index": i, "protocols": [M.render_def(p, None, 0) for p in model.protocols()][:1], "runs": stats.get("runs", 0)})
    finally:
        model.close()
    # keep at most one violation per class per model
    seen, out = set(), []
    for rec, doc in viols:
        k = (rec["class"], rec.get("format"), rec.get("lang"))
        if k not in seen:
            seen.add(k)
            out.append((rec, doc))
    return {"stats": stats, "violations": out, "cases": cases, "samples": samples[:1]}


def replay_doc(doc, ybin, root):
    if doc.get("kind") == "c16v":
        import importlib
        C05 = importlib.import_module("checks.C05")
        newest = sw.unpack_pkg(doc["pkg"])
        model, _ = C05.open_models(newest, ybin, root)
        try:
            cm = C.CppModel(model.dir, sanitize=SANITIZE[0])
            nb = cm.copyto[doc["protocol"]]
            data = bytes.fromhex(doc["payload_hex"])
            runs = [{"proto": doc["protocol"], "op": "relay", "in_fmt": "binary", "out_fmt": "ndjson", "input": 0, "batch": [1] * nb},
                    {"proto": doc["protocol"], "op": "relay", "in_fmt": "binary", "out_fmt": "ndjson", "input": 0, "batch": doc.get("batch") or [1] * nb, "cut": doc["cut"]}]
            base, res = cm.run_plan([data], runs, timeout=240)
            if res is None or res.get("crashed"):
                return True, "reader crashed or hung"
            if res["ok"]:
                return True, "the stream cut at %d was relayed without error" % doc["cut"]
            got = bytes.fromhex(res["out"]).decode("utf-8", "replace").split("\n")[:-1]
            bl = bytes.fromhex(base["out"]).decode("utf-8", "replace").split("\n")
            return got != bl[:len(got)], "lines before the error %s a prefix of the intact relay" % ("are not" if got != bl[:len(got)] else "are")
        finally:
            model.close()
    pkg = sw.unpack_pkg(doc["pkg"])
    model = P.PyModel(pkg, ybin, root, want_cpp=doc.get("lang") == "cpp", cpp_opts=C.CPP_OPTS)
    try:
        proto = [p for p in model.protocols() if p.name == doc["protocol"]][0]
        env, ns = model.env, pkg.namespace
        codec = R.Codec(env)
        vals, parts = sw.unpack(doc["values"]), sw.unpack(doc["partitions"])
        flat = sw.flat_values(proto, vals)
        cls = doc["violation"]["class"]
        if doc.get("lang") == "cpp" and doc["format"] == "ndjson":
            cm = C.CppModel(model.dir, sanitize=SANITIZE[0])
            raw = codec.encode_ndjson(proto, ns, model.schema(proto), vals).encode("utf-8")
            res = cm.run_plan([raw], [{"proto": proto.name, "op": "relay", "in_fmt": "ndjson", "out_fmt": "ndjson", "input": 0, "batch": doc.get("batch") or [1] * cm.copyto[proto.name], "cut": doc["cut"]}])[0]
            if res.get("crashed"):
                return cls.startswith("reader_"), res.get("stderr", "")[-300:]
            if res["ok"]:
                return cls in ("truncation_not_reported", "ndjson_prefix_is_complete_document"), "relay completed without error on the truncated stream"
            got = ndjson_lines_to_flat(codec, proto, ns, bytes.fromhex(res["out"]).decode("utf-8", "replace"))
            why = sw.is_prefix(env, ns, proto, flat, got, True)
            return bool(why) and cls == "wrong_value_before_error", why or "error reported: %s" % res.get("what")
        if doc.get("lang") == "cpp":
            cm = C.CppModel(model.dir, sanitize=SANITIZE[0])
            data = codec.encode_stream(proto, ns, model.schema(proto), vals, parts)
            res = cm.run_plan([data], [{"proto": proto.name, "op": "relay", "in_fmt": "binary", "out_fmt": "ndjson", "input": 0, "batch": doc.get("batch") or [1] * cm.copyto[proto.name], "cut": doc["cut"]}])[0]
            if res.get("crashed"):
                return cls.startswith("reader_"), res.get("stderr", "")[-300:]
            if res["ok"]:
                return cls == "truncation_not_reported", "relay completed without error on the truncated stream"
            got = ndjson_lines_to_flat(codec, proto, ns, bytes.fromhex(res["out"]).decode("utf-8", "replace"))
            why = sw.is_prefix(env, ns, proto, flat, got, True)
            return bool(why) and cls == "wrong_value_before_error", why or "error reported: %s" % res.get("what")
        if doc["format"] == "binary":
            data = codec.encode_stream(proto, ns, model.schema(proto), vals, parts)
            rng = M.derive(doc["seed"], "replay")
            d, err, closed = P.read_all(model, proto, "binary", P.binary_input(data[:doc["cut"]], rng, doc["chunk_mode"]), lenient=bool(doc.get("lenient")))
            numeric = False
        else:
            raw = codec.encode_ndjson(proto, ns, model.schema(proto), vals).encode("utf-8")
            d, err, closed = P.read_all(model, proto, "ndjson", P.text_input_bytes(raw[:doc["cut"]]), lenient=bool(doc.get("lenient")))
            numeric = True
        if cls in ("truncation_not_reported", "ndjson_prefix_is_complete_document"):
            return err is None, "reader error: %r, delivered %d values" % (err, len(d))
        if cls == "wrong_value_before_error":
            why = sw.is_prefix(env, ns, proto, flat, d, numeric)
            return bool(why), why
        return False, "class %s is not replayable here" % cls
    finally:
        model.close()


def main():
    runner.run(PROP, "fault_enumeration", "checks.C16", quick_models=48, thorough_budget=1800,
               rule=("one case = one generated protocol x one reference-encoded stream (binary with seeded block partitions and, for 30%, alignment padding that puts "
                     "the 65536-byte refill inside the values; NDJSON) handed to the generated reader truncated at each enumerated cut position: every position for small "
                     "streams (thorough), else every position within 2 bytes of a value boundary, within 16 bytes of k*65536, the whole fixed header, plus a seeded sample; "
                     "delivery chunking drawn per cut; every C++ model and every second other model also carries a protocol whose last step is one 70-330 KiB vector of "
                     "fixed-size numbers (bulk read paths; nothing is read after it); non-trivial = at least 2 cut positions executed; distinct = (model, protocol, repetition)"),
               real_code="generated Python package (binary.py, ndjson.py, protocols.py, types.py) + shipped _binary.py/_ndjson.py/yardl_types.py under numpy; for every 6th model (2nd in the thorough tier) the generated C++ binary and NDJSON readers + shipped coded_stream.h / serializers.h / ndjson headers through CopyTo relays in the harness",
               stubbed="C++ nd-array header and date/date.h; streams produced by the independent reference encoder",
               assumptions=["the reference codec follows docs/reference/*.md except int8/uint8 as one raw byte (what every backend does; reported under C01)",
                            "an NDJSON prefix that is itself a complete document of the protocol (cut on a line boundary in a trailing stream) is a by-design finding, listed in known_findings.json"],
               replay_fn=replay_doc, quick_budget=100,
               fault_keys=("cuts", "ndjson_cuts", "cpp_cuts", "cpp_ndjson_cuts", "cpp_ndjson_cut_on_line_boundary", "cpp_ndjson_cut_inside_line", "cpp_ndjson_cut_in_header", "cpp_previous_version_streams", "cpp_previous_version_cuts", "bulk_final_value_streams", "bulk_array_streams", "bulk_string_streams", "cuts_in_the_last_64k_of_a_bulk_value", "cpp_cut_at_k_times_65536", "cpp_cut_at_k_times_65536_pm1", "cpp_cut_inside_value", "cpp_cut_on_value_boundary", "cut_in_magic", "cut_in_version", "cut_in_schema", "cut_inside_value", "cut_on_value_boundary",
                           "cut_at_k_times_65536", "cut_at_k_times_65536_pm1", "ndjson_cut_on_line_boundary", "ndjson_cut_inside_line", "ndjson_cut_in_header"))


if __name__ == "__main__":
    main_guard(main)
