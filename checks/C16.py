#!/usr/bin/env python3
"""C16 — a truncated stream is reported, never mistaken for a complete one.

Fault = writer crash / dropped connection: only a prefix of the stream is durable.  Streams come
from the reference encoder (known-valid independently of yardl); every sampled cut position of
every stream is handed to the real generated reader over the simulated channel.
"""
import os, sys, io, json
sys.path.insert(0, os.path.join(os.path.dirname(os.path.abspath(__file__)), ".."))
from common.checklib import main_guard
from gen import model as M, values as V, refcodec as R
from streamworld import sw, pynode as P, runner

PROP = "C16"


def cut_positions(n, marks, hdr_end, rng, quick, bigstream):
    """Cut positions: everything for small streams; for large ones all positions near value
    boundaries and near multiples of the staging-buffer size, plus a seeded sample of the rest."""
    pos = set()
    small = n <= 3000
    if small and not quick:
        return list(range(n))
    # header: magic, version, length varint completely; schema text sampled
    pos.update(range(0, min(12, n)))
    pos.update(rng.randint(12, max(12, hdr_end - 1)) for _ in range(4 if quick else 24))
    pos.update({hdr_end - 1, hdr_end})
    for m in marks:
        for d in (-2, -1, 0, 1, 2):
            if 0 <= m + d < n:
                pos.add(m + d)
    k = sw.BUF
    while k <= n + 16:
        for d in range(-16, 17):
            if 0 <= k + d < n:
                pos.add(k + d)
        k += sw.BUF
    body = n - hdr_end
    extra = min(body, 40 if quick else 600)
    for _ in range(extra):
        pos.add(rng.randint(hdr_end, n - 1))
    if small:
        pos.update(range(hdr_end, n) if not quick else [])
    if quick and len(pos) > 160:
        keep = sorted(pos)
        rng.shuffle(keep)
        pos = set(keep[:160]) | {p for p in pos if abs(p % sw.BUF) <= 1 or abs(p % sw.BUF - sw.BUF) <= 1 and p > 100}
    return sorted(p for p in pos if 0 <= p < n)


def pos_class(p, marks, hdr_end):
    if p < 5:
        return "cut_in_magic"
    if p < 9:
        return "cut_in_version"
    if p < hdr_end:
        return "cut_in_schema"
    if p % sw.BUF == 0:
        return "cut_at_k_times_65536"
    if p % sw.BUF in (1, sw.BUF - 1):
        return "cut_at_k_times_65536_pm1"
    if p in marks:
        return "cut_on_value_boundary"
    return "cut_inside_value"


def check_binary(model, proto, rng, quick, stats, viols, seedinfo):
    env, ns = model.env, model.pkg.namespace
    codec = R.Codec(env)
    schema = model.schema(proto)
    hdr_end = 9 + len(_uv(len(schema.encode()))) + len(schema.encode())
    big = rng.chance(0.3)
    pad_len = None
    if big and proto.steps[0][0] == sw.PAD_STEP:
        pad_len = sw.BUF - hdr_end - 3 - rng.randint(0, 40)
    vals = sw.gen_values(env, ns, proto, rng, big=rng.chance(0.2), pad_len=pad_len, items=(0, 5))
    parts = sw.gen_partitions(proto, vals, rng)
    data = codec.encode_stream(proto, ns, schema, vals, parts)
    marks = set(codec.marks)
    flat = sw.flat_values(proto, vals)
    stats["streams"] = stats.get("streams", 0) + 1
    stats["streams_gt_64k"] = stats.get("streams_gt_64k", 0) + (1 if len(data) > sw.BUF else 0)
    # positive control: the complete stream is accepted and delivers exactly the values
    with runner.time_limit(20):
        d, err, closed = P.read_all(model, proto, "binary", io.BytesIO(data))
    stats["runs"] = stats.get("runs", 0) + 1
    if err is not None or not closed or sw.flat_equal(env, ns, proto, flat, d):
        # a reader that cannot read the intact stream is C01's business; C16 needs a baseline
        stats["baseline_unreadable(skipped)"] = stats.get("baseline_unreadable(skipped)", 0) + 1
        return
    for p in cut_positions(len(data), marks, hdr_end, rng, quick, big):
        mode = rng.choice(["whole", "whole", "small", "mixed", "bytewise"] if len(data) < 5000 else ["whole", "mixed"])
        stream = P.binary_input(data[:p], rng, mode)
        cls = pos_class(p, marks, hdr_end)
        stats[cls] = stats.get(cls, 0) + 1
        stats["runs"] += 1
        stats["cuts"] = stats.get("cuts", 0) + 1
        try:
            with runner.time_limit(20):
                d, err, closed = P.read_all(model, proto, "binary", stream)
        except runner.Hang:
            viols.append(({"class": "reader_hangs_on_truncated_stream", "lang": "python", "format": "binary", "position_class": cls},
                          _doc(model, proto, vals, parts, p, mode, "binary", seedinfo)))
            return
        if err is None:
            viols.append(({"class": "truncation_not_reported", "lang": "python", "format": "binary", "position_class": cls},
                          _doc(model, proto, vals, parts, p, mode, "binary", seedinfo)))
            return
        why = sw.is_prefix(env, ns, proto, flat, d)
        if why:
            viols.append(({"class": "wrong_value_before_error", "lang": "python", "format": "binary", "position_class": cls, "detail": why[:200]},
                          _doc(model, proto, vals, parts, p, mode, "binary", seedinfo)))
            return


def check_ndjson(model, proto, rng, quick, stats, viols, seedinfo):
    env, ns = model.env, model.pkg.namespace
    codec = R.Codec(env)
    schema = model.schema(proto)
    vals = sw.gen_values(env, ns, proto, rng, finite=True, items=(0, 4))
    text = codec.encode_ndjson(proto, ns, schema, vals)
    raw = text.encode("utf-8")
    flat = sw.flat_values(proto, vals)
    with runner.time_limit(20):
        d, err, closed = P.read_all(model, proto, "ndjson", io.StringIO(text))
    stats["runs"] = stats.get("runs", 0) + 1
    if err is not None or sw.flat_equal(env, ns, proto, flat, d, True):
        stats["baseline_unreadable(skipped)"] = stats.get("baseline_unreadable(skipped)", 0) + 1
        return
    stats["ndjson_streams"] = stats.get("ndjson_streams", 0) + 1
    n = len(raw)
    hdr_end = raw.index(b"\n") + 1
    line_starts = [k + 1 for k, b in enumerate(raw) if b == 10]
    cand = set(range(0, min(n, 6))) | {hdr_end - 1, hdr_end} | {rng.randint(0, hdr_end) for _ in range(4)}
    for ls in line_starts:
        cand.update({ls - 2, ls - 1, ls, ls + 1})
    cand.update(rng.randint(hdr_end, n - 1) for _ in range(20 if quick else 300))
    for p in sorted(c for c in cand if 0 <= c < n):
        prefix = raw[:p]
        stats["runs"] += 1
        stats["ndjson_cuts"] = stats.get("ndjson_cuts", 0) + 1
        # is the prefix itself a complete document of this protocol by the documented format?
        complete = False
        try:
            ptxt = prefix.decode("utf-8")
            pv = codec.decode_ndjson(proto, ns, ptxt, schema)
            complete = True
        except (R.Truncated, R.Malformed, UnicodeDecodeError, ValueError, KeyError, TypeError):
            pass
        try:
            with runner.time_limit(20):
                d, err, closed = P.read_all(model, proto, "ndjson", P.text_input_bytes(prefix))
        except runner.Hang:
            viols.append(({"class": "reader_hangs_on_truncated_stream", "lang": "python", "format": "ndjson"}, _doc(model, proto, vals, None, p, "whole", "ndjson", seedinfo)))
            return
        on_line = p in line_starts
        cls = "ndjson_cut_on_line_boundary" if on_line else ("ndjson_cut_in_header" if p < hdr_end else "ndjson_cut_inside_line")
        stats[cls] = stats.get(cls, 0) + 1
        if err is None:
            if complete:
                stats["ndjson_prefix_is_complete_document"] = stats.get("ndjson_prefix_is_complete_document", 0) + 1
                viols.append(({"class": "ndjson_prefix_is_complete_document", "format": "ndjson"}, _doc(model, proto, vals, None, p, "whole", "ndjson", seedinfo)))
                continue
            viols.append(({"class": "truncation_not_reported", "lang": "python", "format": "ndjson", "position_class": cls},
                          _doc(model, proto, vals, None, p, "whole", "ndjson", seedinfo)))
            return
        why = sw.is_prefix(env, ns, proto, flat, d, True)
        if why:
            viols.append(({"class": "wrong_value_before_error", "lang": "python", "format": "ndjson", "position_class": cls, "detail": why[:200]},
                          _doc(model, proto, vals, None, p, "whole", "ndjson", seedinfo)))
            return


def _uv(v):
    b = bytearray()
    R.put_uvarint(b, v)
    return bytes(b)


def _doc(model, proto, vals, parts, p, mode, fmt, seedinfo):
    return {"kind": "c16", "pkg": sw.pack_pkg(model.pkg), "files": M.render_tree(model.pkg, ""), "protocol": proto.name, "values": sw.pack(vals),
            "partitions": sw.pack(parts), "cut": p, "chunk_mode": mode, "format": fmt, "seed": seedinfo["seed"], "model_index": seedinfo["i"],
            "values_repr": repr(vals)[:2000]}


def model_task(task, ybin, root):
    seed, i, quick = task["seed"], task["i"], task["tier"] == "quick"
    rng = M.derive(seed, "c16", i)
    pkg = sw.stream_package(rng.next())
    model = P.PyModel(pkg, ybin, root)
    stats, viols, cases, samples = {}, [], [], []
    try:
        for proto in model.protocols():
            for rep in range(2 if quick else 6):
                r = rng.fork(proto.name, rep)
                before = stats.get("runs", 0)
                check_binary(model, proto, r, quick, stats, viols, task)
                check_ndjson(model, proto, r.fork("nd"), quick, stats, viols, task)
                cases.append((["c16", i, proto.name, rep], stats.get("runs", 0) - before > 2))
        samples.append({"model_index": i, "protocols": [M.render_def(p, None, 0) for p in model.protocols()][:1], "runs": stats.get("runs", 0)})
    finally:
        model.close()
    # keep at most one violation per class per model
    seen, out = set(), []
    for rec, doc in viols:
        k = (rec["class"], rec.get("format"))
        if k not in seen:
            seen.add(k)
            out.append((rec, doc))
    return {"stats": stats, "violations": out, "cases": cases, "samples": samples[:1]}


def replay_doc(doc, ybin, root):
    pkg = sw.unpack_pkg(doc["pkg"])
    model = P.PyModel(pkg, ybin, root)
    try:
        proto = [p for p in model.protocols() if p.name == doc["protocol"]][0]
        env, ns = model.env, pkg.namespace
        codec = R.Codec(env)
        vals, parts = sw.unpack(doc["values"]), sw.unpack(doc["partitions"])
        flat = sw.flat_values(proto, vals)
        cls = doc["violation"]["class"]
        if doc["format"] == "binary":
            data = codec.encode_stream(proto, ns, model.schema(proto), vals, parts)
            rng = M.derive(doc["seed"], "replay")
            d, err, closed = P.read_all(model, proto, "binary", P.binary_input(data[:doc["cut"]], rng, doc["chunk_mode"]))
            numeric = False
        else:
            raw = codec.encode_ndjson(proto, ns, model.schema(proto), vals).encode("utf-8")
            d, err, closed = P.read_all(model, proto, "ndjson", P.text_input_bytes(raw[:doc["cut"]]))
            numeric = True
        if cls in ("truncation_not_reported", "ndjson_prefix_is_complete_document"):
            return err is None, "reader error: %r, delivered %d values" % (err, len(d))
        if cls == "wrong_value_before_error":
            why = sw.is_prefix(env, ns, proto, flat, d, numeric)
            return bool(why), why
        return False, "class %s is not replayable here" % cls
    finally:
        model.close()


def main():
    runner.run(PROP, "fault_enumeration", "checks.C16", quick_models=48, thorough_budget=1800,
               rule=("one case = one generated protocol x one reference-encoded stream (binary with seeded block partitions and, for 30%, alignment padding that puts "
                     "the 65536-byte refill inside the values; NDJSON) handed to the generated reader truncated at each enumerated cut position: every position for small "
                     "streams (thorough), else every position within 2 bytes of a value boundary, within 16 bytes of k*65536, the whole fixed header, plus a seeded sample; "
                     "delivery chunking drawn per cut; non-trivial = at least 2 cut positions executed; distinct = (model, protocol, repetition)"),
               real_code="generated Python package (binary.py, ndjson.py, protocols.py, types.py) + shipped _binary.py/_ndjson.py/yardl_types.py under numpy",
               stubbed="none on the Python side; streams produced by the independent reference encoder",
               assumptions=["the reference codec follows docs/reference/*.md except int8/uint8 as one raw byte (what every backend does; reported under C01)",
                            "an NDJSON prefix that is itself a complete document of the protocol (cut on a line boundary in a trailing stream) is a by-design finding, listed in known_findings.json"],
               replay_fn=replay_doc, quick_budget=100,
               fault_keys=("cuts", "ndjson_cuts", "cut_in_magic", "cut_in_version", "cut_in_schema", "cut_inside_value", "cut_on_value_boundary",
                           "cut_at_k_times_65536", "cut_at_k_times_65536_pm1", "ndjson_cut_on_line_boundary", "ndjson_cut_inside_line", "ndjson_cut_in_header"))


if __name__ == "__main__":
    main_guard(main)
