#!/usr/bin/env python3
"""C17 — stream contents do not depend on batching, and items are independent.

Reference model = the flat list of items per stream step.  Seeded write histories (how items are
grouped into calls: lists, lazy iterables, empty calls, batches) and read histories (single reads,
batch reads of capacity c, CopyTo buffer sizes), over reference-encoded streams with seeded block
partitions, and alignment padding that moves the 65536-byte flush/refill boundary of the real
runtimes inside and between items.
"""
import os, sys, io, json
sys.path.insert(0, os.path.join(os.path.dirname(os.path.abspath(__file__)), ".."))
from common.checklib import main_guard
from gen import model as M, values as V, refcodec as R
from streamworld import sw, pynode as P, cppnode as C, runner

PROP = "C17"


def uvlen(v):
    b = bytearray()
    R.put_uvarint(b, v)
    return len(b)


def hdr_len(schema):
    n = len(schema.encode())
    return 9 + uvlen(n) + n


def workload(model, proto, rng, finite, align):
    env, ns = model.env, model.pkg.namespace
    schema = model.schema(proto)
    pad_len = None
    if align and proto.steps[0][0] == sw.PAD_STEP:
        # the pad string must still fit into the 64 KiB staging buffer together with the header,
        # so that what follows lands `delta` bytes before the buffer's end
        delta = rng.randint(0, 48)
        pad_len = sw.BUF - hdr_len(schema) - 3 - delta
    vals = sw.gen_values(env, ns, proto, rng, finite=finite, items=(2, 7), pad_len=pad_len)
    for k_, (sn_, _, _) in enumerate(proto.steps):
        if sn_ == "steerlongvec" and rng.fork("longvec").chance(0.5):
            # vectors longer than any chunk size a reader may use internally (65536 elements and beyond), each followed by a
            # shorter one: what a reused destination still holds from the item before must not show
            lr = rng.fork("longvec2")
            lens = lr.sample([100000, 70000, 0, 66000, 90000, 65536, 65537, 3, 131073], lr.randint(3, 5))
            vals[k_] = [[(j * 7 + n) % 251 for j in range(n)] for n in lens]
    er = rng.fork("empty")
    for k_, (_, _, st_) in enumerate(proto.steps):
        if st_ and er.chance(0.2):
            vals[k_] = []            # an empty stream between others (end marker right after the previous stream's)
    if align and rng.chance(0.5):
        # a second refill further on: lengthen one stream step so that the stream spans several staging buffers
        sidx = [k for k, (_, _, s) in enumerate(proto.steps) if s]
        k = rng.choice(sidx)
        if vals[k]:
            enc = R.Codec(env)
            one = bytearray()
            enc.enc(M.qualify(proto.steps[k][1], ns), vals[k][0], one)
            reps = min(4000, max(1, (sw.BUF + rng.randint(0, 3000)) // max(1, len(one))))
            vg = V.ValueGen(env, rng, finite_only=finite, json_safe=finite)
            qt = M.qualify(proto.steps[k][1], ns)
            vals[k] = vals[k] + [vg.gen(qt) for _ in range(reps)]
    return vals


def split(rng, n):
    out = []
    while n > 0:
        k = min(n, rng.choice([1, 1, 2, 3, 5, n]))
        out.append(k)
        n -= k
    return out


# ------------------------------------------------------------------------------- Python node

NP_PRIM = {"bool": "bool_", "int8": "int8", "uint8": "uint8", "int16": "int16", "uint16": "uint16", "int32": "int32", "uint32": "uint32", "int64": "int64",
           "uint64": "uint64", "size": "uint64", "float32": "float32", "float64": "float64", "complexfloat32": "complex64", "complexfloat64": "complex128"}


def as_numpy_items(model, t, chunk):
    """The items of a stream as one 1-D numpy array (numbers: the matching dtype; records of fixed-size fields: the
    structured dtype the generated package itself reports through get_dtype), or None if the item type has no such form."""
    import numpy as np
    if not chunk:
        return None
    res = model.env.resolve(M.qualify(t, model.pkg.namespace))
    try:
        if isinstance(res, M.Prim) and res.name in NP_PRIM:
            return np.array(chunk, dtype=getattr(np, NP_PRIM[res.name]))
        if isinstance(res, tuple) and res[0] == "record" and not res[1].params:
            def fixed(rt):
                r2 = model.env.resolve(rt)
                if isinstance(r2, M.Prim):
                    return r2.name in NP_PRIM
                if isinstance(r2, tuple) and r2[0] == "record":
                    return all(fixed(ft) for _, ft in model.env.record_fields(r2))
                return False
            if not all(fixed(ft) for _, ft in model.env.record_fields(res)):
                return None
            dt = model.mod.get_dtype(type(chunk[0]))

            def tup(o):
                return tuple(tup(a) for a in vars(o).values()) if hasattr(o, "__dict__") else o
            return np.array([tup(o) for o in chunk], dtype=dt)
    except Exception:  # noqa  (no array form after all)
        return None
    return None


reusing = P.reusing


REUSED = [0]


def py_write_history(model, proto, pyvals, rng, fmt):
    """Write pyvals with a seeded grouping. Returns (bytes|text, error, description)."""
    sink = P.SimSink() if fmt == "binary" else io.StringIO()
    desc = []
    try:
        w = model.cls(proto, fmt, "Writer")(sink)
        meths = model.step_methods(w, "write_")
        for i, (name, t, stream) in enumerate(proto.steps):
            if not stream:
                meths[i](pyvals[i])
                continue
            items = pyvals[i]
            k = 0
            if rng is None:
                meths[i](list(items))
                continue
            groups = split(rng, len(items))
            if rng.chance(0.4):
                groups.insert(rng.randint(0, len(groups)), 0)
            if not groups:
                groups = [0]
            for g in groups:
                chunk = items[k:k + g]
                k += g
                # the API takes any Iterable[T]: sized ones (list, tuple, deque, dict views) and one-shot ones (generator, iterator, map)
                how = rng.choice(["list", "gen", "tuple", "list", "gen", "tuple", "deque", "dictvalues", "iter", "map", "nparray", "nparray", "reuse", "reuse"])
                # (binary only: that numpy records and scalars can stand in for the Python objects is a feature of the binary serializers)
                arr = as_numpy_items(model, t, chunk) if (how == "nparray" and fmt == "binary") else None
                if how == "nparray" and arr is None:
                    how = "list"
                desc.append("%s:%s%d" % (name, how[:2] if how in ("deque", "dictvalues", "iter", "map", "nparray", "reuse") else how[0], g))
                if how == "list":
                    meths[i](list(chunk))
                elif how == "gen":
                    meths[i]((x for x in chunk))
                elif how == "deque":
                    import collections
                    meths[i](collections.deque(chunk))
                elif how == "dictvalues":
                    meths[i](dict(enumerate(chunk)).values())
                elif how == "iter":
                    meths[i](iter(list(chunk)))
                elif how == "map":
                    meths[i](map(lambda x: x, chunk))
                elif how == "nparray":
                    meths[i](arr)
                elif how == "reuse":
                    meths[i](reusing(chunk, REUSED))
                else:
                    meths[i](tuple(chunk))
        w.close()
    except Exception as e:  # noqa
        return None, e, " ".join(desc)
    return (bytes(sink.buf) if fmt == "binary" else sink.getvalue()), None, " ".join(desc)


def py_side(model, proto, rng, quick, stats, viols, ctx):
    env, ns = model.env, model.pkg.namespace
    codec = R.Codec(env)
    schema = model.schema(proto)
    for rep in range(3 if quick else 8):
        r = rng.fork("py", rep)
        finite = rep % 2 == 1
        vals = workload(model, proto, r, finite, align=r.chance(0.6))
        flat = sw.flat_values(proto, vals)
        parts = sw.gen_partitions(proto, vals, r)
        data = codec.encode_stream(proto, ns, schema, vals, parts)
        stats["py_streams"] = stats.get("py_streams", 0) + 1
        stats["runs"] = stats.get("runs", 0) + 1
        # read side: any block partition, item by item
        lb = sw.LogBytesIO(data)
        collect = r.chance(0.5)
        stats["py_read_collect_then_inspect" if collect else "py_read_item_by_item"] = stats.get("py_read_collect_then_inspect" if collect else "py_read_item_by_item", 0) + 1
        try:
            with runner.time_limit(30):
                d, err, closed = P.read_all(model, proto, "binary", lb, collect=collect)
        except runner.Hang as e:
            d, err, closed = [], RuntimeError("reader did not terminate: %s" % e), False
        marks = set(codec.marks)
        if any(pos > 0 and pos < len(data) and pos not in marks for pos, n in lb.fills):
            stats["value_straddles_refill"] = stats.get("value_straddles_refill", 0) + 1
        if err is not None:
            viols.append(({"class": "reader_raised_on_valid_stream", "lang": "python", "format": "binary", "exc": type(err).__name__},
                          doc(model, proto, vals, parts, ctx, "py_read", repr(err)[:200])))
            continue
        why = sw.flat_equal(env, ns, proto, flat, d)
        if why:
            viols.append(({"class": "items_depend_on_block_partition", "lang": "python", "format": "binary"}, doc(model, proto, vals, parts, ctx, "py_read", why)))
            continue
        # read side, delivery: the same bytes arriving in pieces (a raw source that hands out what it has; a named pipe)
        mode_ = r.fork("delivery").choice(["small", "mixed", "bytewise", "mixed"] if len(data) < 20000 else ["mixed", "mixed", "small"])
        stats["py_reads_with_piecewise_delivery"] = stats.get("py_reads_with_piecewise_delivery", 0) + 1
        stats["runs"] += 1
        try:
            with runner.time_limit(60):
                d3, err3, closed3 = P.read_all(model, proto, "binary", P.SimRaw(data, P.make_chunker(r.fork("chunks"), mode_)), collect=collect)
        except runner.Hang as e:
            d3, err3, closed3 = [], RuntimeError("reader did not terminate: %s" % e), False
        why3 = ("reader raised %r" % (err3,)) if err3 is not None else sw.flat_equal(env, ns, proto, flat, d3)
        if why3:
            viols.append(({"class": "items_depend_on_how_the_bytes_arrive", "lang": "python", "format": "binary"}, doc(model, proto, vals, parts, ctx, "py_read_pieces", why3 + " | delivery: " + mode_, hist_seed=[rep, 0])))
            continue
        # read side, NDJSON: the reference document (one line per item) read by the generated reader
        if finite:
            try:
                ndtext = codec.encode_ndjson(proto, ns, schema, vals)
            except Exception:  # noqa  (no NDJSON form for these values)
                ndtext = None
            if ndtext is not None:
                stats["py_ndjson_reads"] = stats.get("py_ndjson_reads", 0) + 1
                stats["runs"] += 1
                try:
                    with runner.time_limit(30):
                        d2, err2, closed2 = P.read_all(model, proto, "ndjson", io.StringIO(ndtext), collect=collect)
                except runner.Hang as e:
                    d2, err2, closed2 = [], RuntimeError("reader did not terminate: %s" % e), False
                if err2 is None:
                    why2 = sw.flat_equal(env, ns, proto, flat, d2, True)
                    if why2:
                        viols.append(({"class": "items_depend_on_other_items", "lang": "python", "format": "ndjson"}, doc(model, proto, vals, parts, ctx, "py_read_ndjson", why2)))
                        continue
                else:
                    # (whether the mapping of some value is accepted at all is C02's business; only wrong items are judged here)
                    stats["py_ndjson_read_raised(not judged; C02)"] = stats.get("py_ndjson_read_raised(not judged; C02)", 0) + 1
        # write side: groupings
        try:
            pyvals = P.read_python_values(model, proto, data)
        except Exception as e:  # noqa
            continue
        # NDJSON: the JSON mapping itself is C02's business; here the oracle is that every grouping
        # emits the same lines as the one-call-per-step baseline
        nd_base = None
        if finite:
            nd_base, nd_err, _ = py_write_history(model, proto, pyvals, None, "ndjson")
            if nd_err is not None:
                nd_base = None
                stats["ndjson_baseline_unwritable(skipped; C02)"] = stats.get("ndjson_baseline_unwritable(skipped; C02)", 0) + 1
        for h in range(2 if quick else 5):
            hr = r.fork("hist", h)
            fmt = "ndjson" if (nd_base is not None and hr.chance(0.4)) else "binary"
            stats["runs"] += 1
            stats["py_write_histories"] = stats.get("py_write_histories", 0) + 1
            before = REUSED[0]
            out, err, desc = py_write_history(model, proto, pyvals, hr, fmt)
            stats["items_handed_over_in_a_reused_object"] = stats.get("items_handed_over_in_a_reused_object", 0) + REUSED[0] - before
            for tok in desc.split():
                kind = tok.split(":")[1].rstrip("0123456789")
                key = {"l": "list_path", "g": "generator_path", "t": "tuple_path", "de": "sized_iterable_path(deque, dict view)", "di": "sized_iterable_path(deque, dict view)",
                       "it": "one_shot_iterator_path(iter, map)", "ma": "one_shot_iterator_path(iter, map)", "np": "numpy_array_as_iterable", "re": "producer_reusing_one_object"}[kind]
                stats[key] = stats.get(key, 0) + 1
                if tok.endswith("0"):
                    stats["empty_write_call"] = stats.get("empty_write_call", 0) + 1
            if err is not None:
                viols.append(({"class": "writer_raised_on_legal_history", "lang": "python", "format": fmt, "exc": type(err).__name__},
                              doc(model, proto, vals, parts, ctx, "py_write", "%r after calls: %s" % (err, desc), hist_seed=[rep, h])))
                break
            try:
                if fmt == "binary":
                    v2, _, _ = codec.decode_stream(proto, ns, out, schema)
                    why = sw.flat_equal(env, ns, proto, flat, sw.flat_values(proto, v2))
                else:
                    why = "" if out == nd_base else "NDJSON lines differ from the one-call-per-step baseline"
            except (R.Truncated, R.Malformed) as e:
                why = "emitted stream does not decode: %r" % (e,)
            if why:
                viols.append(({"class": "items_depend_on_write_grouping", "lang": "python", "format": fmt},
                              doc(model, proto, vals, parts, ctx, "py_write", why + " | calls: " + desc, hist_seed=[rep, h])))
                break


# ------------------------------------------------------------------------------- C++ node

def build_script(hr, steps, vals, rfmt, plain=False):
    """A complete read-everything / write-everything call script.  plain: one item at a time (every read goes into a
    fresh variable in the harness), one write per item."""
    script = [["mkR", rfmt], ["mkW", "binary"]]
    for k, s in enumerate(steps):
        if not s["stream"]:
            script += [["R1", k], ["W1", k]]
            continue
        n_items = len(vals[k])
        # read phase for this step: until the reader says the stream ended
        reads, remaining = [], n_items
        while True:
            if plain or hr.chance(0.5):
                reads.append(["R1", k])
                took = 1
            else:
                cap = hr.choice([1, 2, 3, 7, max(1, n_items)])
                reads.append(["RB", k, cap])
                took = cap
            remaining -= took
            if remaining < 0:
                break
        script += reads
        left = n_items
        while left > 0:
            if not plain and hr.chance(0.12):
                script.append(["WB", k, 0])      # an empty batch in the middle of the stream
            if plain or hr.chance(0.5):
                script.append(["W1", k]); left -= 1
            else:
                g = min(left, hr.choice([1, 2, 3, left]))
                script.append(["WB", k, g]); left -= g
        if not plain and hr.chance(0.3):
            script.append(["WB", k, 0])
        script.append(["E", k])
    script += [["CR"], ["CW"]]
    return script


def cpp_side(model, cm, proto, rng, quick, stats, viols, ctx):
    env, ns = model.env, model.pkg.namespace
    codec = R.Codec(env)
    schema = model.schema(proto)
    nb = cm.copyto[proto.name]
    steps = cm.protos[proto.name]
    stream_idx = [k for k, s in enumerate(steps) if s["stream"]]
    inputs, runs, meta = [], [], []
    # C++ writes dates and times through the stubbed date.h: values of those types are not compared after a C++ NDJSON hop
    from streamworld import roundtrip as RT_
    has_times = RT_.uses_prim(env, model.pkg, proto, M.TIME_PRIMS)
    for rep in range(3 if quick else 8):
        r = rng.fork("cpp", rep)
        vals = workload(model, proto, r, finite=True, align=r.chance(0.6))
        flat = sw.flat_values(proto, vals)
        parts = sw.gen_partitions(proto, vals, r)
        data = codec.encode_stream(proto, ns, schema, vals, parts)
        extra_caps = set()
        if codec.block_ends and proto.steps[0][0] == sw.PAD_STEP and r.chance(0.4):
            # alignment of another kind: the padding is sized so that a *block* of a stream ends exactly on a multiple of
            # the staging-buffer size (the reader's buffer runs empty precisely where the next block header is due), and
            # batch capacities are added that become full exactly there
            end, step_i, upto = r.choice(codec.block_ends)
            for _ in range(4):
                shift = (-end) % sw.BUF
                if shift == 0:
                    break
                vals[0] = vals[0] + "p" * shift
                data = codec.encode_stream(proto, ns, schema, vals, parts)
                end = [e for e, si, u in codec.block_ends if si == step_i and u == upto][0]
            if end % sw.BUF == 0:
                stats["block_end_on_buffer_boundary"] = stats.get("block_end_on_buffer_boundary", 0) + 1
                extra_caps = {c for c in (upto, 2, 3, 4, 5, 6) if c >= 2 and upto % c == 0}
            flat = sw.flat_values(proto, vals)
        inputs.append(data)
        ii = len(inputs) - 1
        nmax = max([len(vals[k]) for k in stream_idx] or [1])
        caps = sorted({1, 2, 3, 7, 64, max(1, nmax - 1), max(1, nmax), nmax + 1} | extra_caps)
        for c in (caps if not quick else sorted(set(r.sample(caps, min(4, len(caps)))) | extra_caps)):
            runs.append({"proto": proto.name, "op": "relay", "in_fmt": "binary", "out_fmt": "binary", "input": ii,
                         "batch": [c if r.chance(0.7) else r.choice(caps) for _ in range(nb)], "chunk_mode": r.choice([0, 0, 3]), "chunk_seed": r.randint(1, 1 << 30)})
            meta.append(("relay", vals, parts, flat, runs[-1]["batch"]))
        # API-call histories: read with mixed single/batch reads, write back with mixed groupings
        for h in range(2 if quick else 5):
            script = build_script(r.fork("script", h), steps, vals, "binary")
            runs.append({"proto": proto.name, "op": "script", "input": ii, "script": script})
            meta.append(("script", vals, parts, flat, script))
        if (rep <= 1 or not quick) and not has_times:
            # NDJSON written by the C++ writer itself from the binary stream: whatever it chose to write, the C++ reader has to
            # give back the items that went in - under every read history (ground truth = the values, not another history)
            w0 = cm.run_plan([data], [{"proto": proto.name, "op": "relay", "in_fmt": "binary", "out_fmt": "ndjson", "input": 0, "batch": [1] * nb}], timeout=120)[0]
            if w0 is not None and not w0.get("crashed") and w0.get("ok"):
                # write groupings into the C++ NDJSON writer: the same items handed over in batches (CopyTo buffer sizes), to an
                # output stream in its default state or one its owner used before - the lines written must be the same
                for c in r.fork("ndwrite").sample([2, 3, 7, 64], 2):
                    for ost in (0, r.fork("ndwrite-ostate", c).choice([1, 2, 3, 4, 5, 6])):
                        wr = cm.run_plan([data], [{"proto": proto.name, "op": "relay", "in_fmt": "binary", "out_fmt": "ndjson", "input": 0, "batch": [c] * nb, "ostate": ost}], timeout=120)[0]
                        stats["runs"] = stats.get("runs", 0) + 1
                        stats["cpp_ndjson_write_groupings"] = stats.get("cpp_ndjson_write_groupings", 0) + 1
                        if wr is None:
                            continue
                        how_ = {"batch": c, "ostate": ost}
                        if wr.get("crashed") or not wr.get("ok"):
                            viols.append(({"class": "writer_raised_on_legal_history", "lang": "cpp", "format": "ndjson"},
                                          doc(model, proto, vals, parts, ctx, "cpp_cppnd_write", str(wr.get("what") or wr.get("stderr", ""))[-300:], how=how_)))
                        elif wr["out"] != w0["out"]:
                            a_, b_ = bytes.fromhex(w0["out"]).decode("utf-8", "replace").split("\n"), bytes.fromhex(wr["out"]).decode("utf-8", "replace").split("\n")
                            k_ = next((j for j, (x, y) in enumerate(zip(a_, b_)) if x != y), min(len(a_), len(b_)))
                            viols.append(({"class": "items_depend_on_write_grouping", "lang": "cpp", "format": "ndjson"},
                                          doc(model, proto, vals, parts, ctx, "cpp_cppnd_write", "line %d written with batches of %d (ostream state %d) differs from the line written item by item: %s | %s"
                                              % (k_, c, ost, (b_[k_] if k_ < len(b_) else "<none>")[:120], (a_[k_] if k_ < len(a_) else "<none>")[:120]), how=how_)))
                inputs.append(bytes.fromhex(w0["out"]))
                kk = len(inputs) - 1
                for c in ([1] + r.sample([2, 3, 7, 64], 2)):
                    runs.append({"proto": proto.name, "op": "relay", "in_fmt": "ndjson", "out_fmt": "binary", "input": kk, "batch": [c] * nb,
                                 "chunk_mode": r.choice([0, 0, 3]), "chunk_seed": r.randint(1, 1 << 30)})
                    meta.append(("cppnd_relay", vals, parts, flat, runs[-1]["batch"]))
                for h in range(2 if quick else 4):
                    script = build_script(r.fork("cppndscript", h), steps, vals, "ndjson", plain=(h == 0))
                    runs.append({"proto": proto.name, "op": "script", "input": kk, "script": script})
                    meta.append(("cppnd_script", vals, parts, flat, script))
            else:
                stats["cpp_cannot_write_ndjson(skipped; C02)"] = stats.get("cpp_cannot_write_ndjson(skipped; C02)", 0) + 1
        if rep == 0 or not quick:
            # the NDJSON reader (generated from_json, look-ahead line reader).  What the JSON text of a value is belongs
            # to C02; here the same NDJSON document is read by different histories - one item at a time into a fresh
            # variable each (the baseline), CopyTo with a reused destination and several buffer sizes, mixed single and
            # batch reads - and every one of them has to deliver what the baseline delivers.
            raw = codec.encode_ndjson(proto, ns, schema, vals).encode("utf-8")
            inputs.append(raw)
            jj = len(inputs) - 1
            base = build_script(r.fork("ndbase"), steps, vals, "ndjson", plain=True)
            runs.append({"proto": proto.name, "op": "script", "input": jj, "script": base})
            meta.append(("ndjson_baseline", vals, parts, flat, base))
            group = len(meta) - 1
            for c in ([1] + r.sample([2, 3, 7, 64], 2)):
                runs.append({"proto": proto.name, "op": "relay", "in_fmt": "ndjson", "out_fmt": "binary", "input": jj, "batch": [c] * nb,
                             "chunk_mode": r.choice([0, 0, 3]), "chunk_seed": r.randint(1, 1 << 30)})
                meta.append(("ndjson_relay", vals, parts, group, runs[-1]["batch"]))
            for h in range(2 if quick else 5):
                script = build_script(r.fork("ndscript", h), steps, vals, "ndjson")
                runs.append({"proto": proto.name, "op": "script", "input": jj, "script": script})
                meta.append(("ndjson_script", vals, parts, group, script))
    if not runs:
        return
    results = cm.run_plan(inputs, runs, timeout=180)
    nd_base = {}          # index of a baseline in meta -> the flat values it delivered (None: the C++ reader cannot read the document at all)
    for idx, (res, (kind, vals, parts, flat, how)) in enumerate(zip(results, meta)):
        if kind == "ndjson_baseline":
            nd_base[idx] = None
            if res is not None and not res.get("crashed") and res.get("ok") and not [c for c in res.get("calls", []) if c["r"] == "exc"]:
                try:
                    v2, _, _ = codec.decode_stream(proto, ns, bytes.fromhex(res["out"]), schema)
                    nd_base[idx] = sw.flat_values(proto, v2)
                except (R.Truncated, R.Malformed):
                    pass
            if nd_base[idx] is None:
                stats["cpp_ndjson_baseline_unreadable(skipped)"] = stats.get("cpp_ndjson_baseline_unreadable(skipped)", 0) + 1
    for res, (kind, vals, parts, flat, how) in zip(results, meta):
        if kind == "ndjson_baseline":
            continue
        if kind.startswith("ndjson_"):
            flat = nd_base.get(flat)
            if flat is None:
                continue
        stats["runs"] = stats.get("runs", 0) + 1
        stats["cpp_" + kind] = stats.get("cpp_" + kind, 0) + 1
        if res is None:
            continue
        if res.get("crashed"):
            viols.append(({"class": "reader_or_writer_crashed", "lang": "cpp", "hang": bool(res.get("hang"))},
                          doc(model, proto, vals, parts, ctx, "cpp_" + kind, res.get("stderr", "")[-400:], how=how)))
            continue
        err = None
        if kind.endswith("relay") and not res["ok"]:
            err = "%s: %s" % (res["phase"], res.get("what"))
        if kind.endswith("script"):
            bad = [c for c in res.get("calls", []) if c["r"] == "exc"]
            if bad or not res["ok"]:
                err = "call raised: %s" % (bad[0].get("what") if bad else res.get("what"))
        if err:
            viols.append(({"class": "raised_on_legal_history", "lang": "cpp", "mode": kind}, doc(model, proto, vals, parts, ctx, "cpp_" + kind, err, how=how)))
            continue
        try:
            v2, p2, _ = codec.decode_stream(proto, ns, bytes.fromhex(res["out"]), schema)
            why = sw.flat_equal(env, ns, proto, flat, sw.flat_values(proto, v2), kind.startswith("cppnd"))
        except (R.Truncated, R.Malformed) as e:
            why = "emitted stream does not decode: %r" % (e,)
        if why:
            cls = "items_depend_on_read_batching" if kind.endswith("relay") else "items_depend_on_call_history"
            viols.append(({"class": cls, "lang": "cpp", "format": "ndjson" if (kind.startswith("ndjson") or kind.startswith("cppnd")) else "binary"}, doc(model, proto, vals, parts, ctx, "cpp_" + kind, why, how=how)))


def doc(model, proto, vals, parts, ctx, pipeline, detail, how=None, hist_seed=None):
    return {"kind": "c17", "pkg": sw.pack_pkg(model.pkg), "files": M.render_tree(model.pkg, ""), "protocol": proto.name, "values": sw.pack(vals),
            "partitions": sw.pack(parts), "pipeline": pipeline, "detail": detail[:600], "how": how, "hist_seed": hist_seed,
            "seed": ctx["seed"], "model_index": ctx["i"], "values_repr": repr(vals)[:1500]}


def versioned_task(task, ybin, root):
    """Reading a *previous version's* stream (C++ only): the conversions the newest reader applies to old values are part
    of what a read delivers, and must not depend on how the items are read either.  A stream encoded under a previous
    version's model (C05's version chains; at least a handful of items per stream step) is relayed to NDJSON by the newest
    reader with CopyTo buffer sizes 1, 2, 3, 5 and 64; oracle: all relays that succeed emit the same lines as the relay with
    buffer size 1, and none fails where that one succeeds."""
    import importlib
    C05 = importlib.import_module("checks.C05")
    seed, i, quick = task["seed"], task["i"], task["tier"] == "quick"
    rng = M.derive(seed, "c17v", i)
    newest = C05.make_chain(rng.fork("chain"))
    stats, viols, cases = {"models_with_cpp": 1, "versioned_models": 1}, [], []
    model, old_models = C05.open_models(newest, ybin, root)
    try:
        try:
            cm = C.CppModel(model.dir)
        except C.GeneratedCodeDoesNotCompile:
            stats["generated_cpp_did_not_compile(discarded)"] = 1
            return {"stats": stats, "violations": [], "cases": [], "samples": []}
        ns = newest.namespace
        for label, (old_pkg, old_env, old_schemas) in old_models.items():
            for proto in model.protocols():
                old_proto = old_pkg.find(proto.name)
                if old_proto is None or proto.name not in old_schemas or viols:
                    continue
                for rep in range(2 if quick else 6):
                    r = rng.fork(label, proto.name, rep)
                    vals = sw.gen_values(old_env, ns, old_proto, r, finite=True, items=(5, 12))
                    data = R.Codec(old_env).encode_stream(old_proto, ns, old_schemas[proto.name], vals, sw.gen_partitions(old_proto, vals, r))
                    nb = cm.copyto[proto.name]
                    sizes = [1, 2, 3, 5, 64]
                    runs = [{"proto": proto.name, "op": "relay", "in_fmt": "binary", "out_fmt": "ndjson", "input": 0, "batch": [b] * nb} for b in sizes]
                    results = cm.run_plan([data], runs, timeout=240)
                    stats["runs"] = stats.get("runs", 0) + len(runs)
                    base = results[0]
                    if base is None or base.get("crashed") or not base.get("ok"):
                        stats["previous_version_stream_not_readable(C05's business, skipped)"] = stats.get("previous_version_stream_not_readable(C05's business, skipped)", 0) + 1
                        continue
                    stats["cpp_previous_version_streams"] = stats.get("cpp_previous_version_streams", 0) + 1
                    for b, res in zip(sizes[1:], results[1:]):
                        if res is None:
                            continue
                        d = {"kind": "c17v", "pkg": sw.pack_pkg(model.pkg), "files": M.render_tree(model.pkg, ""), "protocol": proto.name, "version": label, "payload_hex": data.hex(),
                             "seed": seed, "model_index": i, "batch": b}
                        if res.get("crashed") or not res.get("ok"):
                            viols.append(({"class": "items_depend_on_read_batching", "lang": "cpp", "format": "binary(previous version)"},
                                          dict(d, detail="CopyTo with buffer size %d fails (%s) where buffer size 1 succeeds" % (b, str(res.get("what") or res.get("stderr", ""))[:200]))))
                            break
                        if res["out"] != base["out"]:
                            a, c = bytes.fromhex(base["out"]).decode("utf-8", "replace").split("\n"), bytes.fromhex(res["out"]).decode("utf-8", "replace").split("\n")
                            k = next((j for j, (x, y) in enumerate(zip(a, c)) if x != y), min(len(a), len(c)))
                            viols.append(({"class": "items_depend_on_read_batching", "lang": "cpp", "format": "binary(previous version)"},
                                          dict(d, detail="line %d differs between CopyTo buffer sizes 1 and %d: %s | %s" % (k, b, (a[k] if k < len(a) else "<none>")[:160], (c[k] if k < len(c) else "<none>")[:160]))))
                            break
                    if viols:
                        break
                cases.append((["c17v", i, proto.name, label], True))
    finally:
        model.close()
    return {"stats": stats, "violations": viols, "cases": cases, "samples": [{"model_index": i, "versioned": True}]}


def model_task(task, ybin, root):
    seed, i, quick = task["seed"], task["i"], task["tier"] == "quick"
    if i % 4 == 2:
        return versioned_task(task, ybin, root)
    rng = M.derive(seed, "c17", i)
    want_cpp = (i % 4 == 0) if quick else (i % 2 == 0)
    cfg = M.GenConfig.swarm(rng.fork("cfg"))
    cfg.p_stream = 0.8
    if want_cpp:
        cfg.time_types = cfg.time_types  # binary only here: dates are plain integers on the wire
    pkg = sw.stream_package(rng.next(), cfg=cfg, for_cpp=want_cpp)
    # coverage steering: destination reuse only shows with item shapes that can shrink — every model gets
    # a stream of maps and a stream of vectors of optionals on its first protocol
    first = [d for d in pkg.defs() if isinstance(d, M.Protocol)][0]
    kt = M.Prim(rng.choice(["string", "int16", "uint8", "int64"]))
    vt = rng.choice([M.Prim("int32"), M.Prim("string"), M.Opt(M.Prim("float64")), M.Vec(M.Prim("uint16"))])
    first.steps.append(("steermap", M.Map(kt, vt), True))
    first.steps.append(("steervec", M.Vec(M.Opt(M.Map(M.Prim("string"), M.Prim("int8")))), True))
    # a generic record whose type argument can be absent (an optional, a nullable union): consecutive items differ in
    # whether the parameter-typed field is there at all
    fn0 = sorted(pkg.files)[0]
    pkg.files[fn0].append(M.Record("SteerGenO", ("T",), [("tag", M.Prim("int32")), ("payload", M.TParam("T"))]))
    first.steps.append(("steergeno", M.Named("SteerGenO", (rng.choice([M.Opt(M.Prim("int32")), M.Opt(M.Prim("string")),
                                                                   M.Union((("int32", M.Prim("int32")), ("string", M.Prim("string"))), nullable=True)]),)), True))
    # items that are records of fixed-size fields (with and without padding in an aligned layout) and plain numbers: the
    # shapes for which the Python API also takes one numpy array as the iterable
    pkg.files[fn0].append(M.Record("SteerPodPad", (), [("id", M.Prim("uint8")), ("v", M.Prim("float64"))]))
    pkg.files[fn0].append(M.Record("SteerPodFlat", (), [("a", M.Prim("float32")), ("b", M.Prim("float32"))]))
    first.steps.append(("steerpodpad", M.Named("SteerPodPad"), True))
    first.steps.append(("steerpodflat", M.Named("SteerPodFlat"), True))
    first.steps.append(("steernum", M.Prim(rng.choice(["float32", "int16", "uint64", "float64"])), True))
    # items that can be null themselves (an optional, a union with null): a null item is an item
    first.steps.append(("steeroptitems", M.Opt(M.Prim(rng.choice(["int32", "string", "float64"]))), True))
    first.steps.append(("steernullitems", M.Union((("int32", M.Prim("int32")), ("string", M.Prim("string"))), nullable=True), True))
    if want_cpp:
        first.steps.append(("steerlongvec", M.Vec(M.Prim("uint8")), True))
    # items that are arrays of vectors: what the reader hands out for each vector (an array) has to be accepted by the writer
    first.steps.append(("steerarrvec", M.Arr(M.Vec(M.Prim(rng.choice(["int16", "float32", "uint8"]))), rng.choice([None, 1])), True))
    # items that are numeric arrays: the readers may hand out views of their staging buffer
    first.steps.append(("steerarr", M.Arr(M.Prim(rng.choice(["float32", "int16", "float64", "complexfloat32"])), rng.choice([None, 1, 2, ((None, 3),)])), True))
    model = P.PyModel(pkg, ybin, root, want_cpp=want_cpp, cpp_opts=C.CPP_OPTS)
    stats, viols, cases = {"models_with_cpp": 1 if want_cpp else 0}, [], []
    try:
        cm = None
        if want_cpp:
            try:
                cm = C.CppModel(model.dir)
            except C.GeneratedCodeDoesNotCompile as e:
                stats["generated_cpp_did_not_compile(discarded)"] = 1
        for proto in model.protocols():
            if not any(s for _, _, s in proto.steps):
                continue
            before = stats.get("runs", 0)
            py_side(model, proto, rng.fork(proto.name), quick, stats, viols, task)
            if cm is not None:
                cpp_side(model, cm, proto, rng.fork(proto.name, "cpp"), quick, stats, viols, task)
            cases.append((["c17", i, proto.name], stats.get("runs", 0) - before > 1))
    finally:
        model.close()
    seen, out = set(), []
    for rec, d in viols:
        k = (rec["class"], rec.get("lang"), rec.get("exc"))
        if k not in seen:
            seen.add(k)
            out.append((rec, d))
    return {"stats": stats, "violations": out, "cases": cases,
            "samples": [{"model_index": i, "cpp": want_cpp, "protocols": [M.render_def(p, None, 0) for p in model.protocols()][:1]}]}


def replay_doc(doc_, ybin, root):
    if doc_.get("kind") == "c17v":
        import importlib
        C05 = importlib.import_module("checks.C05")
        model, _ = C05.open_models(sw.unpack_pkg(doc_["pkg"]), ybin, root)
        try:
            cm = C.CppModel(model.dir)
            nb = cm.copyto[doc_["protocol"]]
            runs = [{"proto": doc_["protocol"], "op": "relay", "in_fmt": "binary", "out_fmt": "ndjson", "input": 0, "batch": [b] * nb} for b in (1, doc_["batch"])]
            base, res = cm.run_plan([bytes.fromhex(doc_["payload_hex"])], runs, timeout=240)
            bad = res is None or res.get("crashed") or not res.get("ok") or res["out"] != base["out"]
            return bool(bad), "relays with buffer sizes 1 and %d %s" % (doc_["batch"], "differ" if bad else "agree")
        finally:
            model.close()
    pkg = sw.unpack_pkg(doc_["pkg"])
    want_cpp = doc_["pipeline"].startswith("cpp")
    model = P.PyModel(pkg, ybin, root, want_cpp=want_cpp, cpp_opts=C.CPP_OPTS)
    try:
        proto = [p for p in model.protocols() if p.name == doc_["protocol"]][0]
        env, ns = model.env, pkg.namespace
        codec = R.Codec(env)
        schema = model.schema(proto)
        vals, parts = sw.unpack(doc_["values"]), sw.unpack(doc_["partitions"])
        flat = sw.flat_values(proto, vals)
        data = codec.encode_stream(proto, ns, schema, vals, parts)
        cls = doc_["violation"]["class"]
        if doc_["pipeline"] == "py_read":
            d, err, closed = P.read_all(model, proto, "binary", io.BytesIO(data))
            if err is not None:
                return cls == "reader_raised_on_valid_stream", repr(err)
            why = sw.flat_equal(env, ns, proto, flat, d)
            return bool(why), why
        if doc_["pipeline"] == "py_read_pieces":
            why_all = ""
            for mode_ in ("small", "mixed", "bytewise"):
                d, err, closed = P.read_all(model, proto, "binary", P.SimRaw(data, P.make_chunker(M.derive(doc_["seed"], "replay-chunks", mode_), mode_)))
                why_all = why_all or (("reader raised %r" % (err,)) if err is not None else sw.flat_equal(env, ns, proto, flat, d))
            return bool(why_all), why_all
        if doc_["pipeline"] == "py_read_ndjson":
            d, err, closed = P.read_all(model, proto, "ndjson", io.StringIO(codec.encode_ndjson(proto, ns, schema, vals)))
            if err is not None:
                return False, "the reader raised (not judged here): %r" % (err,)
            why = sw.flat_equal(env, ns, proto, flat, d, True)
            return bool(why), why
        if doc_["pipeline"] == "py_write":
            pyvals = P.read_python_values(model, proto, data)
            rep, h = doc_["hist_seed"]
            r = M.derive(doc_["seed"], "c17", doc_["model_index"]).fork(proto.name).fork("py", rep).fork("hist", h)
            fmt = doc_["violation"].get("format", "binary")
            # re-draw exactly as py_side does
            finite = rep % 2 == 1
            fmt2 = "ndjson" if (finite and r.chance(0.4)) else "binary"
            out, err, desc = py_write_history(model, proto, pyvals, r, fmt2)
            if err is not None:
                return cls == "writer_raised_on_legal_history", "%r after %s" % (err, desc)
            if fmt2 == "binary":
                v2, _, _ = codec.decode_stream(proto, ns, out, schema)
                why = sw.flat_equal(env, ns, proto, flat, sw.flat_values(proto, v2))
            else:
                base, berr, _ = py_write_history(model, proto, pyvals, None, "ndjson")
                why = "" if out == base else "NDJSON lines differ from the one-call-per-step baseline"
            return bool(why), why
        cm = C.CppModel(model.dir)
        if doc_["pipeline"].startswith("cpp_cppnd"):
            # NDJSON written by the C++ writer from the binary stream, read back under the recorded history
            nb_ = cm.copyto[proto.name]
            w0 = cm.run_plan([data], [{"proto": proto.name, "op": "relay", "in_fmt": "binary", "out_fmt": "ndjson", "input": 0, "batch": [1] * nb_}])[0]
            raw = bytes.fromhex(w0["out"])
            if doc_["pipeline"] == "cpp_cppnd_write":
                wr = cm.run_plan([data], [{"proto": proto.name, "op": "relay", "in_fmt": "binary", "out_fmt": "ndjson", "input": 0, "batch": [doc_["how"]["batch"]] * nb_, "ostate": doc_["how"]["ostate"]}])[0]
                bad = wr is None or wr.get("crashed") or not wr.get("ok") or wr["out"] != w0["out"]
                return bool(bad), "lines differ from those written item by item" if bad else "same lines"
            if doc_["pipeline"] == "cpp_cppnd_relay":
                run = {"proto": proto.name, "op": "relay", "in_fmt": "ndjson", "out_fmt": "binary", "input": 0, "batch": doc_["how"]}
            else:
                run = {"proto": proto.name, "op": "script", "input": 0, "script": doc_["how"]}
            res = cm.run_plan([raw], [run])[0]
        elif doc_["pipeline"].startswith("cpp_ndjson"):
            # same NDJSON document, baseline history (fresh variable per item) against the recorded history
            raw = codec.encode_ndjson(proto, ns, schema, vals).encode("utf-8")
            base = build_script(M.derive(1, "replay"), cm.protos[proto.name], vals, "ndjson", plain=True)
            if doc_["pipeline"] == "cpp_ndjson_relay":
                run = {"proto": proto.name, "op": "relay", "in_fmt": "ndjson", "out_fmt": "binary", "input": 0, "batch": doc_["how"]}
            else:
                run = {"proto": proto.name, "op": "script", "input": 0, "script": doc_["how"]}
            rb, res = cm.run_plan([raw], [{"proto": proto.name, "op": "script", "input": 0, "script": base}, run])
            vb, _, _ = codec.decode_stream(proto, ns, bytes.fromhex(rb["out"]), schema)
            flat = sw.flat_values(proto, vb)
        elif doc_["pipeline"] == "cpp_relay":
            run = {"proto": proto.name, "op": "relay", "in_fmt": "binary", "out_fmt": "binary", "input": 0, "batch": doc_["how"]}
            res = cm.run_plan([data], [run])[0]
        else:
            run = {"proto": proto.name, "op": "script", "input": 0, "script": doc_["how"]}
            res = cm.run_plan([data], [run])[0]
        if res.get("crashed"):
            return cls == "reader_or_writer_crashed", res.get("stderr", "")[-300:]
        bad = [c for c in res.get("calls", []) if c["r"] == "exc"]
        if not res["ok"] or bad:
            return cls == "raised_on_legal_history", str(res.get("what") or bad[0].get("what"))
        try:
            v2, _, _ = codec.decode_stream(proto, ns, bytes.fromhex(res["out"]), schema)
            why = sw.flat_equal(env, ns, proto, flat, sw.flat_values(proto, v2))
        except (R.Truncated, R.Malformed) as e:
            why = repr(e)
        return bool(why), why
    finally:
        model.close()


def main():
    runner.run(PROP, "exploration", "checks.C17", quick_models=40, thorough_budget=1800,
               rule=("one case = one generated protocol with stream steps x seeded item sequences (2-7 items whose shapes differ) x [python] read of a reference stream "
                     "with a seeded block partition + 2-5 write histories (list / generator / tuple / empty calls) in binary or NDJSON, [C++ for every 4th model] CopyTo relays "
                     "with buffer capacities {1,2,3,7,64,n-1,n,n+1} + 2-5 API-call histories mixing single and batch reads/writes, and the same for one NDJSON document per protocol (CopyTo with a reused destination and mixed read histories against a baseline that reads every item into a fresh variable); every model carries streams of maps, of vectors of optionals, of arrays and of a generic record whose type argument can be absent; 60% of workloads carry alignment padding that "
                     "puts the 65536-byte flush/refill boundary 0-48 bytes before the first stream item; oracle = flat list via the independent reference decoder"),
               real_code="generated Python package + shipped _binary.py/_ndjson.py; generated C++ (types, protocols, binary) + shipped yardl/detail/** headers, g++ -std=c++17",
               stubbed="C++: nd-array header (cpp.overrideArrayHeader) and date/date.h are verification stubs; harness main emitted from the generated protocols.h",
               assumptions=["reference codec per docs/reference, with int8/uint8 as one raw byte"],
               replay_fn=replay_doc, quick_budget=150,
               fault_keys=("value_straddles_refill", "empty_write_call", "generator_path", "list_path", "tuple_path", "sized_iterable_path(deque, dict view)", "one_shot_iterator_path(iter, map)", "numpy_array_as_iterable", "producer_reusing_one_object", "items_handed_over_in_a_reused_object", "cpp_previous_version_streams", "py_ndjson_reads", "py_reads_with_piecewise_delivery", "block_end_on_buffer_boundary", "cpp_relay", "cpp_script", "cpp_ndjson_relay", "cpp_ndjson_script", "cpp_cppnd_relay", "cpp_cppnd_script", "py_write_histories"))


if __name__ == "__main__":
    main_guard(main)
