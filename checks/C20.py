#!/usr/bin/env python3
"""C20 — watch mode converges to the output for the final package contents.

The real `yardl generate --watch` (cobra command, dedupLoop, generateInWatchMode, generateImpl,
all generators) runs inside the simulated OS under a seeded scheduler that decides every
interleaving of: editor save steps, fs-event deliveries, regeneration goroutines (parked at
every simulated OS / koanf call) and clock advances.  Oracles after quiescence:
  O1 convergence: a one-shot generate on a snapshot of the final disk, in a fresh process,
     must leave the tree byte-for-byte unchanged;
  O2 no foreign output: a regeneration born after the last edit may only write paths that a
     one-shot generate from clean output directories writes for the final package contents;
  O3 the watcher is still alive and quiescence was reached within the step/time bounds.
"""
import os, sys, json, copy
sys.path.insert(0, os.path.join(os.path.dirname(os.path.abspath(__file__)), ".."))
from common.checklib import Check, parse_args, main_guard
from gen import model as M, edits as E
from toolworld import tw

PROP = "C20"


# ---------------------------------------------------------------------------------------
# Workload
# ---------------------------------------------------------------------------------------

def diff_to_edits(rng, before: dict, after: dict, in_place_bias: float):
    eds = []
    for p in sorted(set(before) | set(after)):
        if p not in after:
            eds.append({"kind": "remove", "path": p})
        elif before.get(p) != after[p]:
            if rng.chance(in_place_bias):
                eds.append({"kind": "write", "path": p, "data": after[p], "steps": rng.randint(1, 3)})
            elif p in before and rng.chance(0.3):
                eds.append({"kind": "backup", "path": p, "data": after[p]})      # move aside, write anew, delete the backup
            else:
                eds.append({"kind": "atomic", "path": p, "data": after[p]})
    return eds


def model_files_recursive(cur):
    return sorted(p for p in cur if p.startswith("/w/pkg/") and p.endswith((".yml", ".yaml")) and not p.endswith("/_package.yml"))


def make_case(seed, i, force_end=None, kinds_bias=(), steer_named=False):
    rng = M.derive(seed, "c20", i)
    cfg = M.GenConfig.swarm(rng.fork("cfg"))
    cfg.n_records = (1, 4)
    cfg.n_protocols = (1, 2)
    if rng.chance(0.55):
        cfg.imports = rng.randint(1, 2)
    targets = [t for t in ("cpp", "python", "json", "matlab") if rng.chance(0.55)] or ["python"]
    cfg.odd_namespaces = True
    if steer_named and not ({"python", "cpp"} & set(targets)):
        targets = targets + ["python"]
    pkg = M.gen_package(rng.next(), cfg, targets=targets)
    if steer_named:
        # named types that keep their names while one session edit changes what they stand for (and how they are encoded)
        fn_ = sorted(pkg.files)[0]
        pkg.files[fn_] += [M.Alias("ZqIdent", (), M.Prim("uint32")), M.Alias("ZqSamples", (), M.Vec(M.Prim("float32"))), M.Enum("ZqMode", "uint8", [("idle", 0), ("armed", 1), ("running", 200)])]
        protos_ = [d_ for d_ in pkg.defs() if isinstance(d_, M.Protocol)]
        if protos_:
            protos_[0].steps += [("zqident", M.Named("ZqIdent"), False), ("zqsamples", M.Named("ZqSamples"), False), ("zqmodes", M.Named("ZqMode"), True)]
    M.randomize_target_options(pkg, rng.fork("options"))
    inside = rng.fork("inside")
    for t in targets:
        if inside.chance(0.15):
            # an output directory inside the package directory: the tool's own writes produce events in watched directories
            pkg.targets[t] = dict(pkg.targets[t], **{M.TARGET_KEYS[t]: "generated/" + t})
    has_versions = rng.chance(0.35)
    if has_versions:
        pkg = E.with_versions(pkg, rng.fork("v"), rng.randint(1, 3), partial=rng.chance(0.5), layout=rng.fork("vlayout").choice(["siblings", "archive"]))
    # layout: yardl reads model files in sub-directories of a package directory too (ParseYamlInDir walks the tree),
    # so a share of the packages keep one model file of the main or of a referenced package below a sub-directory
    lr = rng.fork("layout")
    subdir_file = None
    if lr.chance(0.3):
        tgt = lr.choice(pkg.all_packages())
        fn = lr.choice(sorted(tgt.files))
        sub = lr.choice(["sub", "shared/types"])
        tgt.files[sub + "/" + fn] = tgt.files.pop(fn)
        subdir_file = "%s/%s/%s" % (tgt.dirname, sub, fn)
    # a directly imported package that the manifest names through a symbolic link (a checkout shared between projects); in
    # half of these cases one of its model files lies in a sub-directory
    links = {}
    sl = rng.fork("symlinked")
    if pkg.imports and sl.chance(0.15):
        imp_ = pkg.imports[0]
        imp_.via_link = True
        links["/w/%s_link" % imp_.dirname] = "/w/" + imp_.dirname
        if sl.chance(0.5) and not any("/" in fn_ for fn_ in imp_.files):
            fn_ = sl.choice(sorted(imp_.files))
            imp_.files["sub/" + fn_] = imp_.files.pop(fn_)
            subdir_file = subdir_file or "%s/sub/%s" % (imp_.dirname, fn_)
    state = pkg
    files0 = M.render_tree(state, "/w")
    M.add_clutter(files0, rng.fork("clutter"))
    # a package that lies next to the main package without being referenced (yet): nobody watches it at the start
    lib_later = rng.fork("liblater").chance(0.3)
    if lib_later:
        files0["/w/lib_later/_package.yml"] = "namespace: LibLater\n"
        files0["/w/lib_later/a_first.yml"] = "LaterBase: !record\n  fields:\n    id: int\n"
        files0["/w/lib_later/b_more.yml"] = "LaterTag: !enum\n  values:\n    - one\n    - two\n"
        files0["/w/lib_later/c_more.yml"] = "LaterPair: !record\n  fields:\n    left: LaterBase\n    right: LaterTag\n"
    invalid_from_start = None
    if force_end == "invalid_from_start":
        # the session starts on a package that is invalid already (and stays so): nothing at all may be written
        invalid_from_start = "/w/pkg/zz_unfinished.yml"
        files0[invalid_from_start] = "ZqUnfinished: !record\n  fields:\n    first: int\n   second: [\n"
    cur = dict(files0)
    edits, log = [], []
    n_edits = rng.randint(1, 6)
    in_place = rng.choice([0.0, 0.5, 1.0])
    # (also: a named type that keeps its name and changes its definition - `Id: uint` -> `Id: ulong`, an enumeration's base type)
    kinds_main = (E.COMPATIBLE + E.PARTIAL + ["widen_alias"]) if has_versions else (E.COMPATIBLE + E.PARTIAL + E.FREE + ["widen_alias", "widen_alias", "widen_enum_base"])
    # (a caller that is after a particular kind of model edit gets more of it)
    kinds_main = kinds_main + [k_ for k_ in kinds_bias if not (has_versions and k_ == "widen_enum_base")]
    removed_targets = {}
    toggled = []
    added_imports = []
    pending_tail = []
    for e in range(n_edits + 1):
        r = rng.fork("edit", e)
        if pending_tail and (e == n_edits or r.fork("untail").chance(0.6)):
            p_, before_ = pending_tail.pop()
            if p_ in cur and cur[p_].startswith(before_.rstrip("\n")) and "ZqTail" in cur[p_]:
                cur[p_] = before_
                edits.append({"kind": "write" if r.chance(0.5) else "atomic", "path": p_, "data": before_, "steps": 1})
                log.append("the appended record removed again from " + p_)
        if e == n_edits:
            break
        if e > 0 and r.fork("pause").chance(0.2):
            edits.append({"kind": "pause"})      # the person at the editor waits until the tool has gone quiet
        kind = r.weighted([("model", 5), ("import_model", 3 if state.imports else 0), ("manifest", 4), ("break_repair", 2), ("touch", 1),
                           ("import_manifest_break_repair", 2 if state.imports else 0), ("subdir", 1.5), ("replace_import_dir", 1.5 if state.imports else 0),
                           ("version_model", 4 if state.versions else 0), ("tail_def", 2)])
        if steer_named and e == rng.fork("steeredit").randrange(n_edits):
            state = copy.deepcopy(state)
            what_ = E.apply_edit(state, r, "widen_alias", only=("ZqIdent", "ZqSamples")) if (has_versions or r.chance(0.7)) else E.apply_edit(state, r, "widen_enum_base", only=("ZqMode",))
            log.append("model: %s" % what_)
            kind = "steered"
        if kind == "tail_def":
            # a definition appended at the very end of the model file that is read last (it becomes the last thing in several
            # generated files), taken away again by a later save: the new generated text is a prefix of the old one
            mfs = model_files_recursive(cur)
            if mfs and not pending_tail:
                p_ = max(mfs)
                pending_tail.append((p_, cur[p_]))
                cur[p_] = cur[p_].rstrip("\n") + "\n\nZqTail%d: !record\n  fields:\n    stamp: uint64\n    text: string\n" % e
                edits.append({"kind": "write" if r.chance(0.5) else "atomic", "path": p_, "data": cur[p_], "steps": r.randint(1, 2)})
                if r.chance(0.5):
                    edits.append({"kind": "pause"})
                log.append("a record appended at the end of " + p_)
            continue
        if kind == "subdir":
            # directory life cycle inside the package directory: a new sub-directory with a model file (mkdir, then the
            # file), a later save of that file, or the removal of the whole sub-directory again
            mine = sorted(p for p in cur if p.startswith("/w/pkg/dir"))
            if mine and r.chance(0.5):
                p = r.choice(mine)
                how = r.choice(["remove", "move_out", "save", "save", "add_file", "add_file", "remove_file"])
                d_ = p.rsplit("/", 1)[0]
                siblings = [q for q in mine if q.rsplit("/", 1)[0] == d_]
                if how == "remove_file" and len(siblings) < 2:
                    how = "add_file"
                if how == "add_file":
                    # one more model file in a sub-directory that exists already: only that directory's listing changes
                    q = "%s/extra%d.yml" % (d_, e)
                    cur[q] = "ZqDirExtra%d: !record\n  fields:\n    note: string\n" % e
                    edits.append({"kind": "write" if r.chance(0.5) else "atomic", "path": q, "data": cur[q], "steps": r.randint(1, 2)})
                    log.append("new file %s in an existing sub-directory" % q)
                elif how == "remove_file":
                    edits.append({"kind": "remove", "path": p})
                    cur.pop(p)
                    log.append("remove %s (its sub-directory stays)" % p)
                elif how == "remove":
                    for q in siblings:
                        if q != p:
                            edits.append({"kind": "remove", "path": q})
                            cur.pop(q)
                    edits.append({"kind": "remove", "path": p})
                    edits.append({"kind": "remove", "path": p.rsplit("/", 1)[0]})
                    cur.pop(p)
                    log.append("remove sub-directory " + p.rsplit("/", 1)[0])
                elif how == "move_out":
                    # the whole sub-directory leaves the package in one rename (mv pkg/dirN ../attic/)
                    d = p.rsplit("/", 1)[0]
                    edits.append({"kind": "mkdir", "path": "/w/attic"})
                    edits.append({"kind": "rename", "path": d, "to": "/w/attic/" + d.rsplit("/", 1)[1] + "_%d" % e})
                    for q in siblings:
                        cur.pop(q, None)
                    log.append("move sub-directory %s out of the package" % d)
                else:
                    cur[p] = cur[p] + "    more%d: string\n" % e
                    edits.append({"kind": "write" if r.chance(0.5) else "atomic", "path": p, "data": cur[p], "steps": r.randint(1, 2)})
                    log.append("save in sub-directory " + p)
            else:
                d = "/w/pkg/dir%d" % e
                p = d + "/more.yml"
                cur[p] = "ZqDir%d: !record\n  fields:\n    first: int\n" % e
                if r.chance(0.5):
                    edits.append({"kind": "mkdir", "path": d})
                    edits.append({"kind": "write", "path": p, "data": cur[p], "steps": r.randint(1, 2)})
                    log.append("new sub-directory with " + p)
                else:
                    # prepared elsewhere and moved into the package in one rename: the only event is for the directory
                    st = "/w/staging/dir%d" % e
                    edits.append({"kind": "mkdir", "path": st})
                    edits.append({"kind": "write", "path": st + "/more.yml", "data": cur[p], "steps": 1})
                    edits.append({"kind": "rename", "path": st, "to": d})
                    log.append("sub-directory %s moved into the package" % d)
            continue
        if kind == "replace_import_dir":
            # a referenced package directory is replaced by a fresh copy (git checkout, unpacking an archive): the new
            # copy is prepared next to it, the old one renamed away, the new one renamed in; a save in the main package
            # follows (nothing watches the parent directory, so nobody can notice before that)
            imp = r.choice(state.all_packages()[:-1])
            base = "/w/%s" % imp.dirname
            files = {p: c for p, c in cur.items() if p.startswith(base + "/")}
            mfs = model_files_recursive(cur)
            if files and mfs:
                edits.append({"kind": "mkdir", "path": base + ".next"})
                for p in sorted(files):
                    if p.count("/") > base.count("/") + 1:
                        edits.append({"kind": "mkdir", "path": (base + ".next" + p[len(base):]).rsplit("/", 1)[0]})
                    edits.append({"kind": "write", "path": base + ".next" + p[len(base):], "data": files[p], "steps": 1})
                edits.append({"kind": "rename", "path": base, "to": "%s.old%d" % (base, e)})
                edits.append({"kind": "rename", "path": base + ".next", "to": base})
                t = r.choice(mfs)
                edits.append({"kind": "write", "path": t, "data": cur[t], "steps": 1})
                log.append("replace directory of %s, then touch %s" % (imp.dirname, t))
                if r.chance(0.7):
                    # ... and once the tool has gone quiet, a save inside the new copy
                    edits.append({"kind": "pause"})
                    imfs = E.model_files(cur, base)
                    if imfs:
                        q = r.choice(imfs)
                        cur[q] = cur[q] + "\nZqRep%d: !record\n  fields:\n    v: int\n" % e
                        edits.append({"kind": "write" if r.chance(0.5) else "atomic", "path": q, "data": cur[q], "steps": r.randint(1, 2)})
                        log.append("pause, then save %s" % q)
            continue
        if kind == "import_manifest_break_repair":
            # an invalid intermediate state inside a *referenced* package's manifest: an import URL that cannot
            # be fetched (unsupported scheme, empty path, unreachable git remote), saved and then corrected
            imp = r.choice(state.all_packages()[:-1])
            mp = "/w/%s/_package.yml" % imp.dirname
            if mp in cur:
                bad_url = r.choice(["ftp://example.org/pkg", "https://example.invalid/org/repo", "file://", "git@example.org:org/repo.git"])
                own = sorted(q for q in cur if q.startswith("/w/%s/" % imp.dirname) and q.count("/") == 3 and q.endswith(".yml") and not q.endswith("/_package.yml"))
                if own and r.fork("belowfile").chance(0.35):
                    # a local path that leads through a regular file (a slip while typing `../other/model`): the directory can
                    # neither be read nor watched, and not because it does not exist
                    bad_url = "./%s/sub" % r.choice(own).rsplit("/", 1)[1]
                elif r.fork("toolong").chance(0.15):
                    # ... or has a component longer than a file name can be (text pasted into the wrong place)
                    bad_url = "../" + "x" * r.fork("toolong").randint(256, 300)
                good = cur[mp]
                if "imports:\n" in good:
                    bad = good.replace("imports:\n", "imports:\n  - %s\n" % bad_url, 1)
                else:
                    bad = good.rstrip("\n") + "\nimports:\n  - %s\n" % bad_url
                edits.append({"kind": "write" if r.chance(0.5) else "atomic", "path": mp, "data": bad, "steps": r.randint(1, 2)})
                edits.append({"kind": "write" if r.chance(0.5) else "atomic", "path": mp, "data": good, "steps": 1})
                log.append("break and repair manifest of %s with import url %s" % (imp.dirname, bad_url))
            continue
        if kind == "model":
            state, l = E.evolve(state, r, r.randint(1, 2), kinds_main)
            log.append("model: " + "; ".join(l))
        elif kind == "import_model":
            state = copy.deepcopy(state)
            imps = state.all_packages()[:-1]
            imp = r.choice(imps)
            l = []
            for _ in range(4):
                d = E.apply_edit(imp, r, r.choice(["add_def", "add_optional_field", "add_field", "reorder_fields"]))
                if d:
                    l.append(d)
                    break
            log.append("import %s: %s" % (imp.dirname, "; ".join(l)))
        elif kind == "version_model":
            # a save in the directory of a previous version (any of them), or - where every version is a snapshot of the whole
            # tree - in that version's own copy of an imported package: the compatibility code generated for it changes
            state = copy.deepcopy(state)
            label, old = r.choice(state.versions)
            tgt = old
            copies = [q for q in old.all_packages()[:-1] if q.dirname.startswith("archive/")]
            if copies and r.chance(0.5):
                tgt = r.choice(copies)
            l = []
            for _ in range(4):
                d = E.apply_edit(tgt, r, r.choice(["add_field", "add_optional_field", "reorder_fields", "add_field"]))
                if d:
                    l.append(d)
                    break
            log.append("version %s (%s): %s" % (label, tgt.dirname, "; ".join(l)))
        elif kind == "manifest":
            state = copy.deepcopy(state)
            opts = ["move_output"]
            if len(state.targets) > 1:
                opts.append("remove_target")
            if removed_targets:
                opts.append("restore_target")
            if state.versions:
                opts.append("drop_versions")
            flags = [(t, f) for t in sorted(state.targets) for f in M.TARGET_FLAGS.get(t, [])]
            if flags:
                opts += ["toggle_option"] * 5
            # the package's own directory listed as a version under a second name ("../pkg"): the same directory is then
            # both the watched "." and a referenced package directory
            opts.append("drop_self_version" if state.self_version else "self_version")
            # the set of referenced packages changes while watching
            opts += ["add_import", "add_import"]
            # a release: the present state of the package is copied aside and listed as a previous version (later saves may go there)
            if len(state.versions) < 3:
                opts += ["add_version", "add_version"]
            if added_imports:
                opts.append("remove_import")
            op = r.choice(opts)
            if op == "remove_target":
                t = r.choice(sorted(state.targets))
                removed_targets[t] = state.targets.pop(t)
            elif op == "restore_target":
                t = r.choice(sorted(removed_targets))
                state.targets[t] = removed_targets.pop(t)
            elif op == "move_output":
                t = r.choice(sorted(state.targets))
                key = M.TARGET_KEYS[t]
                state.targets[t] = dict(state.targets[t], **{key: "../out%d/%s" % (e + 2, t)})
            elif op == "add_import":
                k = len(added_imports) + 1
                extra = M.Package("Extra%d" % k, "imp_extra%d" % k, {"extra.yml": [M.Record("ExtraRec%d" % k, (), [("id", M.Prim("int32")), ("label", M.Prim("string"))]),
                                                                                 M.Enum("ExtraEnum%d" % k, None, [("one", 0), ("two", 1)])]})
                state.imports.append(extra)
                added_imports.append(extra.namespace)
                op = "add_import %s" % extra.dirname
            elif op == "remove_import":
                nsx = added_imports.pop()
                state.imports = [q for q in state.imports if q.namespace != nsx]
                op = "remove_import %s" % nsx
            elif op == "self_version":
                state.self_version = "snapshot"
            elif op == "drop_self_version":
                state.self_version = ""
            elif op == "add_version":
                snap = copy.deepcopy(state)
                snap.versions, snap.targets, snap.self_version = [], {}, ""
                k = sum(1 for l, _ in state.versions if l.startswith("rel")) + 1 + e * 10
                snap.dirname = "%s_rel%d" % (state.dirname, k)
                state.versions.append(("rel%d" % k, snap))
                kinds_main = E.COMPATIBLE + E.PARTIAL + ["widen_alias"]
                op = "add_version rel%d (%s)" % (k, snap.dirname)
            elif op == "drop_versions":
                state.versions = []
                kinds_main = E.COMPATIBLE + E.PARTIAL + E.FREE + ["widen_alias", "widen_alias", "widen_enum_base"]
            elif op == "toggle_option":
                # half of the time an option that was switched before is switched back (off and on again in one session)
                again = [tf for tf in toggled if tf in flags]
                t, f = r.choice(again) if again and r.chance(0.5) else r.choice(flags)
                toggled.append((t, f))
                cur_v = state.targets[t].get(f, True)
                state.targets[t] = dict(state.targets[t], **{f: not cur_v})
                op = "toggle %s.%s -> %s" % (t, f, not cur_v)
            log.append("manifest: " + op)
        elif kind == "break_repair":
            # (never the file that keeps the package invalid for good: while it is being saved in place it is empty for a moment,
            #  an empty model file is a valid one, and a regeneration that reads it right then rightly writes output)
            mfs = [q for q in model_files_recursive(cur) if q != invalid_from_start]
            if mfs:
                p = r.choice(mfs)
                broken = cur[p] + "\nOops: !record\n  fields: [\n"
                edits.append({"kind": "write", "path": p, "data": broken, "steps": r.randint(1, 2)})
                edits.append({"kind": "write" if r.chance(0.5) else "atomic", "path": p, "data": cur[p], "steps": 1})
                log.append("break and repair " + p)
            continue
        elif kind == "touch":
            mfs = [q for q in model_files_recursive(cur) if q != invalid_from_start]
            if mfs:
                p = r.choice(mfs)
                edits.append({"kind": "write", "path": p, "data": cur[p], "steps": r.randint(1, 3)})
                log.append("touch " + p)
            continue
        nxt = M.render_tree(state, "/w")
        # files of earlier states that the new state no longer has stay on disk unless they are model files of a live package dir
        # (only model files and manifests are the state's to manage: what else lies in the directories is left alone - removing
        #  it would produce events of its own in watched directories, after the edit under test)
        eds = diff_to_edits(r, {p: c for p, c in cur.items() if (p in nxt or p.rsplit("/", 1)[0] in {q.rsplit("/", 1)[0] for q in nxt}) and p.endswith((".yml", ".yaml")) and p != invalid_from_start}, nxt, in_place)
        r.shuffle(eds)
        edits += eds
        for ed in eds:
            if ed["kind"] == "remove":
                cur.pop(ed["path"], None)
            else:
                cur[ed["path"]] = ed["data"]
    end_invalid = rng.chance(0.16) or force_end is not None
    if invalid_from_start:
        unfinished = invalid_from_start
        end_invalid = True
    unfinished = invalid_from_start
    if end_invalid and unfinished is None and (force_end == "unfinished_file" or (force_end is None and rng.fork("endkind").chance(0.5))):
        # a new model file that is not finished yet (a YAML syntax error) appears in a directory the package reads - its own,
        # an import's, a previous version's - and stays, while the user goes on saving other files: from that save on the
        # package is invalid whatever else is on disk, and no regeneration that starts later may touch the output
        er = rng.fork("unfinished")
        live = sorted(p for p in M.render_tree(state, "/w") if p in cur and p.endswith((".yml", ".yaml")) and not p.endswith("/_package.yml"))
        if live:
            d = er.choice(["/w/pkg"] + sorted({p.rsplit("/", 1)[0] for p in live}))
            unfinished = d + "/zz_unfinished.yml"
            cur[unfinished] = "ZqUnfinished: !record\n  fields:\n    first: int\n   second: [\n"
            edits.append({"kind": "write", "path": unfinished, "data": cur[unfinished], "steps": 1})
            log.append("unfinished file %s appears and stays" % unfinished)
            for j in range(er.randint(1, 3)):
                if er.chance(0.6):
                    edits.append({"kind": "pause"})
                q = er.choice(live)
                cur[q] = cur[q] + "\nZqLate%d: !record\n  fields:\n    v: int\n" % j
                edits.append({"kind": "write" if er.chance(0.5) else "atomic", "path": q, "data": cur[q], "steps": er.randint(1, 2)})
                log.append("later save of " + q)
    if end_invalid and unfinished is None:
        mfs = model_files_recursive(cur)
        p = rng.choice(mfs)
        edits.append({"kind": "write", "path": p, "data": cur[p] + "\nOops: !record\n  fields: [\n", "steps": 1})
        log.append("final state invalid")
    man0 = cur.get("/w/pkg/_package.yml", "")
    if lib_later and not end_invalid and rng.fork("uselater").chance(0.6) and "../lib_later" not in man0 and (("imports:\n" in man0) or ("imports:" not in man0)):
        # the main package starts to use the package next door, including a type that is not there yet (the generation that
        # first references - and first reads - that directory fails), and the missing type is then added there as the last save
        ur = rng.fork("uselater2")
        mfs = model_files_recursive(cur)
        if mfs:
            man = man0.replace("imports:\n", "imports:\n  - ../lib_later\n", 1) if "imports:\n" in man0 else man0.replace("\n", "\nimports:\n  - ../lib_later\n", 1)
            q = ur.choice(mfs)
            first = [{"kind": "write" if ur.chance(0.5) else "atomic", "path": "/w/pkg/_package.yml", "data": man, "steps": 1},
                     {"kind": "write" if ur.chance(0.5) else "atomic", "path": q, "data": cur[q] + "\nZqUsesLater: !record\n  fields:\n    base: LibLater.LaterBase\n    later: LibLater.LaterExtra\n", "steps": ur.randint(1, 2)}]
            ur.shuffle(first)
            edits += first
            lp = "/w/lib_later/" + ur.choice(["a_first.yml", "a_first.yml", "c_more.yml"])
            last = {"kind": "write" if ur.chance(0.5) else "atomic", "path": lp, "data": cur[lp] + "\nLaterExtra: !record\n  fields:\n    v: int\n", "steps": 1}
            if ur.chance(0.7):
                # fault placement inside the operation: the save lands right after the tool has read that very file (or a
                # later one of the directory) - in the generation that reads the directory before anything watches it
                last["when_read"] = ur.choice([lp, lp, "/w/lib_later/c_more.yml"])
            edits.append(last)
            log.append("import ../lib_later and use LibLater.LaterExtra (in %s), which is then added in %s" % (q, lp))
    # schedule / fault swarm
    sched = {
        "gpolicy": rng.weighted([("rtc", 12), ("sticky", 35), ("pct", 30), ("starve", 23)]),
        "p_switch": rng.choice([0.02, 0.1, 0.3]), "p_clk": rng.choice([0.003, 0.02, 0.1]),
        "p_ed": rng.choice([0.002, 0.01, 0.05, 0.3]), "p_ev": rng.choice([0.05, 0.3, 0.9]),
        "preempt": rng.randint(0, 6), "p_evdup": rng.choice([0, 0, 0.25]), "p_evdrop": rng.choice([0, 0, 0.3]),
        "err_events": rng.choice([0, 0, 0, 1, 2]), "seed": rng.next() % (1 << 40),
    }
    faults = []
    if rng.chance(0.3):
        n_total = sum(1 for _ in edits)
        for j in range(rng.randint(1, 2)):
            fr = rng.fork("fault", j)
            if fr.chance(0.5):
                # model files only: while a manifest cannot be read yardl cannot know which directories to
                # watch, and an edit made there in the meantime is legitimately missed
                cands = [p for p in sorted(files0) if not p.endswith("/_package.yml")]
                faults.append({"op": "open", "path": fr.choice(cands), "exact": True, "nth": fr.randint(2, 6), "errno": "EIO", "until": n_total})
            else:
                faults.append({"op": "write", "path": "/w/out", "nth": fr.randint(5, 200), "errno": "ENOSPC", "until": n_total})
    # command-line overrides of manifest keys, in force for the whole session (every regeneration applies them afresh)
    config_args = []
    ca = rng.fork("configargs")
    stable = [t for t in targets if t in state.targets and t not in removed_targets and not any(("remove_target" in l or "restore_target" in l) for l in log)]
    if stable and ca.chance(0.15):
        t = ca.choice(sorted(stable))
        fl = M.TARGET_FLAGS.get(t, [])
        if fl:
            config_args = ["--config", "%s.%s=%s" % (t, ca.choice(fl), ca.choice(["true", "false"]))]
    # the directory above everything is renamed while the tool watches (the project folder gets another name): a process is in
    # its working directory by identity, relative paths keep their meaning, and the saves that follow must still be noticed
    final_cwd = "/w/pkg"
    mv = rng.fork("moved")
    real_ = [k_ for k_, e_ in enumerate(edits) if e_["kind"] != "pause"]
    if real_ and not links and not invalid_from_start and unfinished is None and not config_args_needed_abs(edits) and mv.chance(0.08):
        at_ = mv.choice(real_)
        def mvp(q_):
            return "/w2" + q_[2:] if isinstance(q_, str) and (q_ == "/w" or q_.startswith("/w/")) else q_
        later_ = []
        for e_ in edits[at_:]:
            e2_ = dict(e_)
            for key_ in ("path", "to", "when_read"):
                if key_ in e2_:
                    e2_[key_] = mvp(e2_[key_])
            later_.append(e2_)
        edits = edits[:at_] + [{"kind": "rename", "path": "/w", "to": "/w2"}] + later_
        final_cwd = "/w2/pkg"
        log.append("the directory above the package and everything it refers to renamed before edit %d" % at_)
    if invalid_from_start:
        # the file that keeps the package invalid for good is never saved in place, whichever kind of edit picked it: between
        # truncation and write it is empty, an empty model file is a valid one, and a regeneration that reads it right then
        # rightly writes output (false alarms of thorough seeds 7373 and 9191)
        for e_ in edits:
            if e_.get("kind") in ("write", "backup") and e_.get("path") == invalid_from_start:
                e_["kind"] = "atomic"
    doc = {"files": files0, "cwd": "/w/pkg", "edits": edits, "sched": sched, "faults": faults, "config_args": config_args, "links": links, "final_cwd": final_cwd,
           "mapseed": rng.next() % (1 << 31) + 1, "seed": seed,
           "case": {"i": i, "targets": targets, "imports": len(pkg.imports), "versions": len(pkg.versions), "edit_log": log,
                    "n_edit_ops": len(edits), "ends_invalid": end_invalid, "unfinished_file": unfinished, "invalid_from_start": bool(invalid_from_start), "model_file_in_subdirectory": subdir_file}}
    return doc


def config_args_needed_abs(edits):
    """(reserved: edits that carry absolute paths in file *contents* would not survive a rename of /w; none do)"""
    return False


def final_inputs(doc):
    cur = dict(doc["files"])
    for ed in doc["edits"]:
        if ed["kind"] == "remove":
            cur.pop(ed["path"], None)
            for p in [p for p in cur if p.startswith(ed["path"] + "/")]:
                cur.pop(p)
        elif ed["kind"] in ("write", "atomic", "backup"):
            cur[ed["path"]] = ed["data"]
        elif ed["kind"] == "rename":
            for p in [p for p in cur if p == ed["path"] or p.startswith(ed["path"] + "/")]:
                cur[ed["to"] + p[len(ed["path"]):]] = cur.pop(p)
    return cur


# ---------------------------------------------------------------------------------------
# Execution + oracles
# ---------------------------------------------------------------------------------------

def execute(sim, doc):
    """Returns (violation record or None, stats)."""
    spec = {"mode": "watch", "files": doc["files"], "cwd": doc["cwd"], "args": ["generate", "--watch"] + list(doc.get("config_args") or []),
            "edits": doc["edits"], "faults": copy.deepcopy(doc.get("faults", [])), "max_steps": 30000, "settle_ms": 60000}
    if doc.get("links"):
        spec["links"] = doc["links"]
    if not doc["edits"]:
        spec["faults"] = []                  # faults are transient: with no edit after them nothing can re-trigger a regeneration
    real = [k for k, e in enumerate(doc["edits"]) if e["kind"] != "pause"]
    if not real:
        spec["faults"] = []
    for f in spec["faults"]:
        # faults stop once the final edit has been made, also after minimisation (pauses after it change nothing on disk:
        # a fault that is still active then would hit the very regeneration that has to converge)
        f["until"] = real[-1] + 1
    mv_ = [k for k, e in enumerate(doc["edits"]) if e["kind"] == "rename" and e.get("path") == "/w"]
    if mv_ and not any(e["kind"] in ("write", "atomic", "backup") for e in doc["edits"][mv_[0] + 1:]):
        # moving the directory above everything produces no event in any directory that can be watched: only a save that
        # follows it can be expected to bring the output up to date (a minimised case that lost that save decides nothing)
        return None, {"runs": 0, "status": "vacuous"}
    spec.update(doc["sched"])
    st = {"runs": 1}
    res = sim.run(spec, mapseed=doc["mapseed"])
    st["status"] = res.get("status")
    if res.get("status") == "process_died":
        return {"class": "watcher_died", "how": "process exit %s" % res.get("rc"), "detail": res.get("stderr_tail", "")[-300:]}, st
    st["probes"] = res["probes"]
    st["steps"] = res["steps"]
    st["sim_ms"] = (res["sim_ns"] - 946684800 * 10**9) / 1e6
    st["faults_fired"] = sum(f.get("fired", 0) for f in (res.get("faults") or []))
    st["trace_len"] = len(res["trace"])
    st["sched_sig"] = sched_signature(res)
    if res["status"] in ("steps_exceeded", "deadlock"):
        return {"class": "no_quiescence", "how": res["status"]}, st
    if res["status"] == "exited" or res["main_returned"]:
        return {"class": "watcher_died", "how": "exit code %s / command returned" % res["exit_code"], "detail": res["stderr"][-300:]}, st
    if not res["alive"]:
        return {"class": "watcher_died", "how": "event loop no longer receives events"}, st
    # O3: from the save of a file that makes the package invalid for good, no regeneration that starts later touches the disk
    unf = doc["case"].get("unfinished_file")
    if unf:
        since = 0 if doc["case"].get("invalid_from_start") else next((o["seq"] for o in res["ops"] if o["op"] == "edit" and o["path"].endswith(" " + unf)), None)
        if since is not None:
            st["regenerations_started_while_invalid_for_good"] = 0
            born = {o["g"]: o["seq"] for o in res["ops"] if o["op"] == "born"}
            st["regenerations_started_while_invalid_for_good"] = sum(1 for g, b in born.items() if b > since)
            for o in res["ops"]:
                if o.get("mut") and o["g"] != "editor" and born.get(o["g"], 0) > since:
                    return {"class": "output_written_while_package_invalid", "first": "%s %s" % (o["op"], o["path"].split(" -> ")[-1].replace("/w/", ""))}, st
    # O1: one-shot on the final disk, fresh process, must change nothing
    tree = res["tree"]
    links = {p: e["t"] for p, e in tree.items() if e["k"] == "l"}
    one = sim.run(tw.oneshot_spec(tw.tree_files(tree), doc.get("final_cwd") or doc["cwd"], args=tuple(["generate"] + list(doc.get("config_args") or [])), links=links, dirs=tw.tree_dirs(tree)), mapseed=doc["mapseed"])
    st["runs"] += 1
    if one.get("status") == "process_died":
        st["final_invalid"] = True
        return None, st
    if one["exit_code"] != 0:
        st["final_invalid"] = True     # final package invalid: convergence is vacuous, liveness was checked
        return None, st
    d = tw.tree_diff(tree, one["tree"])
    if d:
        kind, p = d[0]
        st["diff_paths"] = [q for _, q in d[:200]]
        return {"class": "not_converged", "first": "%s %s" % (kind, p.replace("/w/", "")), "n_diffs": len(d)}, st
    # O2: regenerations born after the last edit only write what a clean one-shot writes
    clean = sim.run(tw.oneshot_spec(final_inputs(doc), doc.get("final_cwd") or doc["cwd"], args=tuple(["generate"] + list(doc.get("config_args") or [])), **({"links": doc["links"]} if doc.get("links") else {})), mapseed=doc["mapseed"])
    st["runs"] += 1
    if clean.get("status") == "returned" and clean["exit_code"] == 0:
        # O4: every file that a generation of the final package into empty output directories writes is on disk with exactly
        # that content (O1 starts from the disk the session left, so it cannot see stale content that a one-shot run would
        # leave alone as well)
        inputs_ = final_inputs(doc)
        for p_, e_ in sorted(clean["tree"].items()):
            if p_ in inputs_ or e_["k"] == "d":
                continue
            have = tree.get(p_)
            if have is None or have["k"] != e_["k"] or (e_["k"] == "f" and have.get("d") != e_.get("d")) or (e_["k"] == "l" and have.get("t") != e_.get("t")):
                return {"class": "not_converged", "first": "%s %s" % ("missing" if have is None else "stale", p_.replace("/w/", "")), "n_diffs": 1, "oracle": "O4"}, st
        # O5: where the tool itself removes what it no longer generates (the *.m files of a MATLAB +package directory that the
        # current generation writes into), nothing that this session generated and the final package does not produce is left
        made = {o["path"].split(" -> ")[-1] for o in res["ops"] if o.get("mut") and o["g"] != "editor" and o["op"] not in ("remove", "removeall")}
        for p_ in sorted(made):
            dir_ = p_.rsplit("/", 1)[0]
            if p_.endswith(".m") and "/+" in p_ and p_ in tree and tree[p_]["k"] == "f" and p_ not in clean["tree"] and dir_ in clean["tree"]:
                return {"class": "not_converged", "first": "left behind %s" % p_.replace("/w/", ""), "n_diffs": 1, "oracle": "O5"}, st
        allowed = set(clean["tree"])
        last_edit = max([o["seq"] for o in res["ops"] if o["op"] == "edit"] or [0])
        born = {o["g"]: o["seq"] for o in res["ops"] if o["op"] == "born"}
        for o in res["ops"]:
            # removals are exempt: MATLAB generation deletes stale files of earlier package states
            if o.get("mut") and o["op"] not in ("remove", "removeall") and born.get(o["g"], 0) > last_edit:
                p = o["path"].split(" -> ")[-1]
                if p not in allowed:
                    return {"class": "foreign_output_after_last_edit", "first": "%s %s" % (o["op"], p.replace("/w/", ""))}, st
    return None, st


def sched_signature(res):
    """Interleaving measure: the schedule projected to (actor class, op kind) switches."""
    import hashlib
    sig, last = [], None
    for t in res["trace"]:
        a = t.split("/")[0]
        if a.startswith("clk"):
            a = "clk"
        if a != last:
            sig.append(a)
            last = a
    return hashlib.sha1("|".join(sig).encode()).hexdigest()[:12]


def minimise(sim, rec, doc, budget_runs=60):
    """Greedy delta debugging over edits, faults and schedule knobs, violation class fixed."""
    cls = rec["class"]
    runs = [0]

    def still(d):
        if runs[0] >= budget_runs:
            return False
        runs[0] += 1
        try:
            v, _ = execute(sim, d)
        except tw.HarnessTrouble:
            return False
        return v is not None and v["class"] == cls

    cur = copy.deepcopy(doc)
    if cur.get("faults"):
        c = dict(cur, faults=[])
        if still(c):
            cur = c
    for knob, val in (("p_evdup", 0), ("p_evdrop", 0), ("err_events", 0), ("preempt", 0)):
        if cur["sched"].get(knob):
            c = copy.deepcopy(cur); c["sched"][knob] = val
            if still(c):
                cur = c
    if cur["sched"]["gpolicy"] != "rtc":
        c = copy.deepcopy(cur); c["sched"]["gpolicy"] = "rtc"
        if still(c):
            cur = c
    # drop edits, largest chunks first
    n = len(cur["edits"])
    chunk = max(1, n // 2)
    while chunk >= 1 and runs[0] < budget_runs:
        i = 0
        while i < len(cur["edits"]) and runs[0] < budget_runs:
            c = copy.deepcopy(cur)
            del c["edits"][i:i + chunk]
            if c["edits"] and still(c):
                cur = c
            else:
                i += chunk
        chunk //= 2
    for ed in cur["edits"]:
        if ed.get("steps", 1) > 1:
            c = copy.deepcopy(cur)
            for e2 in c["edits"]:
                if e2.get("path") == ed.get("path") and e2.get("data") == ed.get("data"):
                    e2["steps"] = 1
            if still(c):
                cur = c
    cur["minimised_with_runs"] = runs[0]
    return cur


def run_case(sim, seed, i):
    doc = make_case(seed, i)
    v, st = execute(sim, doc)
    return doc, v, st


def main():
    args = parse_args(PROP)
    check = Check(PROP, "exploration", args)
    sim = tw.Sim(args.repo)
    if args.replay:
        doc = json.load(open(args.replay))
        v, st = execute(sim, doc)
        ok = v is not None and v["class"] == doc["violation"]["class"]
        print("replay: violation %s: %s" % ("reproduced" if ok else "NOT reproduced", v))
        if ok:
            print("VIOLATION property=%s replay=%s" % (PROP, args.replay))
        sys.exit(1 if ok else 0)
    quick = args.tier == "quick"
    budget = check.budget(90, 1800)
    max_cases = 640 if quick else 10**7
    tot = {"runs": 0, "cases": 0, "final_invalid": 0, "steps": 0, "sim_ms": 0.0, "faults_fired": 0, "cases_with_unfinished_file": 0, "regenerations_started_while_invalid_for_good": 0}
    probes = {}
    sigs = set()
    i = 0
    while i < max_cases and check.elapsed() < budget:
        idx = list(range(i, min(i + 64, max_cases)))
        i += len(idx)
        for doc, v, st in sim.map(idx, lambda c: run_case(sim, args.seed, c)):
            tot["runs"] += st["runs"]
            tot["cases"] += 1
            tot["final_invalid"] += 1 if st.get("final_invalid") else 0
            tot["cases_with_unfinished_file"] += 1 if "regenerations_started_while_invalid_for_good" in st else 0
            tot["regenerations_started_while_invalid_for_good"] += st.get("regenerations_started_while_invalid_for_good", 0)
            tot["cases_with_an_import_named_through_a_symbolic_link"] = tot.get("cases_with_an_import_named_through_a_symbolic_link", 0) + (1 if doc.get("links") else 0)
            tot["steps"] += st.get("steps", 0)
            tot["sim_ms"] += st.get("sim_ms", 0)
            tot["faults_fired"] += st.get("faults_fired", 0)
            for k, n in (st.get("probes") or {}).items():
                probes[k] = probes.get(k, 0) + n
            if st.get("sched_sig"):
                sigs.add(st["sched_sig"])
            overlap = (st.get("probes") or {}).get("regen_overlap_ge2", 0) > 0
            check.note_case(("c20", doc["case"]["i"], st.get("sched_sig")), nontrivial=len(doc["edits"]) > 0)
            check.sample({"case": doc["case"], "sched": doc["sched"], "faults": doc["faults"], "steps": st.get("steps"),
                          "overlapping_regenerations_seen": overlap, "status": st.get("status")}, cap=4)
            if v is not None:
                if check.findings.match(PROP, v) is None and len(check.violations) < 3:
                    doc = minimise(sim, v, doc)
                    v2, _ = execute(sim, doc)
                    if v2 is not None and v2["class"] == v["class"]:
                        v = v2
                check.report(v, doc)
        if len(check.violations) >= 3:
            break
    wall = check.elapsed()
    check.coverage["rule"] = ("one case = one generated package (random targets/imports/versions) + 1-6 seeded edits (model, imported model, manifest, "
                              "break-and-repair, touch; atomic or in-place 1-3 step saves) + one seeded schedule (policy rtc/sticky/pct/starve with "
                              "preemptions, event duplication/coalescing/overflow errors, transient EIO/ENOSPC before the last edit); distinct = by "
                              "(case, interleaving signature); non-trivial = at least one edit applied")
    check.extra["simulation"] = {
        "simulated_runs": tot["runs"], "runs_per_hour": int(tot["runs"] / max(wall, 1e-9) * 3600), "watch_cases": tot["cases"],
        "scheduler_steps": tot["steps"], "simulated_time_s": round(tot["sim_ms"] / 1000.0, 1),
        "runs_repeated_with_15x_step_budget(long, not looping)": sim.budget_retries,
        "distinct_interleaving_signatures": len(sigs), "cases_ending_invalid(liveness only)": tot["final_invalid"],
        "cases_with_a_file_that_makes_the_package_invalid_for_good": tot["cases_with_unfinished_file"],
        "regenerations_started_while_invalid_for_good(must write nothing)": tot["regenerations_started_while_invalid_for_good"],
        "cases_with_an_import_named_through_a_symbolic_link": tot.get("cases_with_an_import_named_through_a_symbolic_link", 0),
        "reach_probes": probes,
        "fault_kinds": {"transient_EIO_or_ENOSPC_fired": tot["faults_fired"], "event_duplicated": probes.get("event_duplicated", 0),
                        "event_coalesced": probes.get("event_coalesced", 0), "overflow_error_delivered": probes.get("overflow_error_delivered", 0),
                        "event_delivery_delayed(receiver busy)": probes.get("event_receiver_busy", 0),
                        "slow_regeneration(time advanced while parked)": probes.get("time_advanced_while_regen_parked", 0)},
        "real_code": "cobra generate --watch command, dedupLoop, generateInWatchMode, generateImpl, packaging, dsl, all generators, koanf — from the working tree",
        "stubbed": "os, path/filepath, os/exec, sync.Mutex, fsnotify, time.AfterFunc wrapper (naming only), `go` statements (naming + park at birth); clock = testing/synctest bubble",
    }
    if not check.violations and tot["cases"] >= 20 and tot["final_invalid"] > 0.6 * tot["cases"]:
        # convergence is vacuous for a session that ends on a package the tool rejects: a tool that rejects (nearly) all of them
        # has not been shown to converge
        raise tw.HarnessTrouble("yardl rejected the final package of %d of %d watch sessions (about a fifth end invalid on purpose); nothing was decided" % (tot["final_invalid"], tot["cases"]))
    check.assumptions += ["interleavings are explored at simulated-OS-call / koanf-call / lock granularity; plain-memory races between seams are not",
                          "the last file-system event after the final edit is never dropped (no watcher could converge otherwise)"]
    check.finish()


if __name__ == "__main__":
    main_guard(main)
