"""Shared skeleton of every check: arguments, seeds, evidence, replay files, known findings,
exit codes (0 held / 1 VIOLATION / 2 harness trouble)."""
from __future__ import annotations

import argparse, hashlib, json, os, sys, time, traceback

VERIF = os.path.dirname(os.path.dirname(os.path.abspath(__file__)))
sys.path.insert(0, VERIF)
sys.path.insert(0, os.path.join(VERIF, "toolworld"))


def parse_args(prop: str):
    ap = argparse.ArgumentParser(prog="check " + prop)
    ap.add_argument("--tier", default=os.environ.get("VERIF_TIER", "quick"), choices=["quick", "thorough"])
    ap.add_argument("--seed", type=int, default=None)
    ap.add_argument("--replay", default=None)
    ap.add_argument("--budget", type=float, default=None, help="wall-clock budget in seconds")
    ap.add_argument("--repo", default=os.environ.get("VERIF_REPO", "/repo"))
    a = ap.parse_args()
    if a.seed is None:
        a.seed = int(os.environ.get("VERIF_SEED", "0") or 0) or (20240901 if a.tier == "quick" else 20240902)
    return a


class Findings:
    """known_findings.json: genuine defects recorded rather than repaired.  A violation record
    matches a finding when every key of the finding's `match` equals the record's value."""

    def __init__(self):
        self.path = os.path.join(VERIF, "known_findings.json")
        self.items = []
        if os.path.exists(self.path) and not os.environ.get("VERIF_IGNORE_KNOWN_FINDINGS"):   # (builder's switch: write replay files for listed findings too)
            with open(self.path) as f:
                self.items = json.load(f).get("findings", [])

    def match(self, prop: str, rec: dict):
        for it in self.items:
            if it.get("property") != prop:
                continue
            if all(rec.get(k) == v for k, v in it.get("match", {}).items()):
                return it
        return None


class Check:
    def __init__(self, prop: str, level: str, args):
        self.prop = prop
        self.level = level
        self.args = args
        self.t0 = time.time()
        self.findings = Findings()
        self.violations = []      # unlisted violations (dicts with 'replay')
        self.known_hits = {}      # finding id -> count
        self.coverage = {"evaluations": 0, "distinct_nontrivial": 0, "rule": "", "samples": []}
        self.assumptions = []
        self.extra = {}
        self.distinct = set()

    def budget(self, quick: float, thorough: float) -> float:
        if self.args.budget:
            return self.args.budget
        return quick if self.args.tier == "quick" else thorough

    def elapsed(self) -> float:
        return time.time() - self.t0

    def note_case(self, key, nontrivial: bool = True):
        self.coverage["evaluations"] += 1
        if nontrivial:
            self.distinct.add(key if isinstance(key, (str, int, tuple)) else json.dumps(key, sort_keys=True))

    def sample(self, s, cap: int = 6):
        if len(self.coverage["samples"]) < cap:
            self.coverage["samples"].append(s)

    def report(self, rec: dict, replay: dict):
        """rec: violation record (class + identifying fields); replay: self-contained replay document."""
        hit = self.findings.match(self.prop, rec)
        if hit is not None:
            self.known_hits[hit["id"]] = self.known_hits.get(hit["id"], 0) + 1
            return False
        h = hashlib.sha256(json.dumps(replay, sort_keys=True).encode()).hexdigest()[:10]
        d = os.path.join(VERIF, "replays")
        os.makedirs(d, exist_ok=True)
        path = os.path.join(d, "%s-%s-%s.json" % (self.prop, replay.get("seed", self.args.seed), h))
        doc = dict(replay)
        doc["property"] = self.prop
        doc["violation"] = rec
        with open(path, "w") as f:
            json.dump(doc, f, indent=1)
        self.violations.append(dict(rec, replay=path))
        return True

    def finish(self):
        wall = self.elapsed()
        self.coverage["distinct_nontrivial"] = len(self.distinct)
        ev = {
            "property_id": self.prop, "tier": self.args.tier, "seed": self.args.seed, "level": self.level,
            "coverage": self.coverage, "assumptions": self.assumptions, "wall_s": round(wall, 2),
            "violations": len(self.violations),
            "known_findings_hit": self.known_hits,
        }
        ev.update(self.extra)
        os.makedirs(os.path.join(VERIF, "evidence"), exist_ok=True)
        with open(os.path.join(VERIF, "evidence", self.prop + ".json"), "w") as f:
            json.dump(ev, f, indent=1)
        for it in self.findings.items:
            if it.get("property") == self.prop:
                print("KNOWN-FINDING: property=%s %s (%d occurrences this run)" % (self.prop, it["what"], self.known_hits.get(it["id"], 0)))
        if self.violations:
            seen = set()
            for v in self.violations:
                if v["replay"] in seen:
                    continue
                seen.add(v["replay"])
                print("VIOLATION property=%s replay=%s" % (self.prop, v["replay"]))
                print("  " + json.dumps({k: v[k] for k in v if k != "replay"})[:600])
            sys.exit(1)
        print("OK property=%s tier=%s seed=%d evaluations=%d distinct=%d wall=%.1fs" % (
            self.prop, self.args.tier, self.args.seed, self.coverage["evaluations"], len(self.distinct), wall))
        sys.exit(0)


def main_guard(fn):
    """Run fn(); anything unexpected is harness trouble (exit 2), never a violation."""
    try:
        fn()
    except SystemExit:
        raise
    except BaseException as e:  # noqa
        traceback.print_exc()
        print("HARNESS-TROUBLE: %s: %s" % (type(e).__name__, e))
        sys.exit(2)
