"""Workload generator, part 2: edits of packages.

* evolve(): AST-level edits that yardl documents as compatible or partially compatible
  (docs/cpp/evolution.md) — used to manufacture previous versions and as the edit stream of the
  watch-mode workload.
* invalidate(): one seeded, certainly-invalid change to a rendered package tree (C11, C20).
"""
from __future__ import annotations

import copy
from dataclasses import replace

from . import model as M
from .model import Prim, Named, Opt, Vec, Map, Union, Arr, Record, Enum, Alias, Protocol, Rng

class _Widen(dict):
    """The next wider type.  Now and then (decided by a fork of the generator apply_edit() runs with, which consumes nothing)
    an unsigned type widens to `size` instead - 64 bits under a name of its own - and `size` itself to uint64 or int64."""
    rng = None

    def __getitem__(self, k):
        r = _Widen.rng
        if r is not None and k in ("uint8", "uint16", "uint32") and r.fork("widen-to-size", k).chance(0.3):
            return "size"
        if r is not None and k == "size" and r.fork("widen-size", k).chance(0.5):
            return "int64"
        return dict.__getitem__(self, k)


WIDEN = _Widen({"int8": "int16", "int16": "int32", "int32": "int64", "uint8": "uint16", "uint16": "uint32",
                "uint32": "uint64", "float32": "float64", "size": "uint64"})


def _records(pkg):
    return [d for d in pkg.defs() if isinstance(d, Record) and not d.params]


def _protocols(pkg):
    return [d for d in pkg.defs() if isinstance(d, Protocol)]


def _fresh_member(existing, rng: Rng) -> str:
    names = set(existing)
    for _ in range(200):
        n = rng.choice(M.WORDS) + str(rng.randint(10, 99))
        if n not in names:
            return n
    raise RuntimeError("no fresh name")


def _fresh_type_name(pkg, rng: Rng, prefix: str) -> str:
    names = {d.name for d in pkg.defs()}
    for _ in range(200):
        n = prefix + rng.choice(M.WORDS).capitalize() + str(rng.randint(10, 99))
        if n not in names:
            return n
    raise RuntimeError("no fresh name")


def _file_of(pkg, d):
    for fn, defs in pkg.files.items():
        if any(x is d for x in defs):
            return fn
    raise KeyError(d.name)


SIMPLE_PRIMS = ["int32", "int64", "uint16", "float32", "float64", "string", "bool", "uint8"]
NO_BOOL = [p for p in SIMPLE_PRIMS if p != "bool"]       # element types of vectors and stream items: std::vector<bool> does not compile in yardl's C++ (C08)

COMPATIBLE = ["add_optional_field", "remove_optional_field", "reorder_fields", "add_step", "add_def", "rename_with_alias"]
PARTIAL = ["add_field", "remove_field", "widen_field", "make_optional", "widen_vector_field", "widen_step", "make_required"]
FREE = ["retype_field", "add_protocol", "change_enum", "rename_case"]  # valid packages, but not evolution-safe


def apply_edit(pkg: M.Package, rng: Rng, kind: str, only=None, only_steps=None):
    """Applies one edit in place. Returns a description string, or None if not applicable.
    only: names of the records that record edits are restricted to."""
    _Widen.rng = rng
    recs = _records(pkg)
    if only is not None:
        recs = [r for r in recs if r.name in only]
    else:
        # records that the caller edits itself, and in one way only (with_versions: reorder_only)
        recs = [r for r in recs if r.name not in getattr(pkg, "hands_off", ())]
    if kind == "add_optional_field" and recs:
        r = rng.choice(recs)
        n = _fresh_member([f for f, _ in r.fields], rng)
        t = Opt(Prim(rng.choice(SIMPLE_PRIMS)))
        r.fields.insert(rng.randint(0, len(r.fields)), (n, t))
        return "add_optional_field %s.%s" % (r.name, n)
    if kind == "remove_optional_field":
        cands = [(r, i) for r in recs for i, (_, t) in enumerate(r.fields) if isinstance(t, Opt) and len(r.fields) > 1]
        if not cands:
            return None
        r, i = rng.choice(cands)
        n = r.fields.pop(i)[0]
        return "remove_optional_field %s.%s" % (r.name, n)
    if kind == "reorder_fields":
        cands = [r for r in recs if len(r.fields) > 1]
        if not cands:
            return None
        r = rng.choice(cands)
        before = list(r.fields)
        for _ in range(5):
            rng.shuffle(r.fields)
            if r.fields != before:
                break
        return "reorder_fields %s" % r.name
    if kind == "add_field" and recs:
        r = rng.choice(recs)
        n = _fresh_member([f for f, _ in r.fields], rng)
        r.fields.insert(rng.randint(0, len(r.fields)), (n, Prim(rng.choice(SIMPLE_PRIMS))))
        return "add_field %s.%s" % (r.name, n)
    if kind == "remove_field":
        cands = [r for r in recs if len(r.fields) > 1]
        if not cands:
            return None
        r = rng.choice(cands)
        n = r.fields.pop(rng.randrange(len(r.fields)))[0]
        return "remove_field %s.%s" % (r.name, n)
    if kind == "add_fixed_vector_field" and recs:
        # a field whose C++ type is an aggregate without a constructor (std::array): "added parts are defaulted" has to be true for it too
        r = rng.choice(recs)
        n = _fresh_member([f for f, _ in r.fields], rng)
        r.fields.insert(rng.randint(0, len(r.fields)), (n, Vec(Prim(rng.choice(["float32", "int32", "uint8", "float64"])), rng.choice([2, 3, 4]))))
        return "add_fixed_vector_field %s.%s" % (r.name, n)
    if kind == "remove_last_field":
        cands = [r for r in recs if len(r.fields) > 1]
        if not cands:
            return None
        r = rng.choice(cands)
        n = r.fields.pop()[0]
        return "remove_last_field %s.%s" % (r.name, n)
    if kind == "widen_field":
        cands = [(r, i) for r in recs for i, (_, t) in enumerate(r.fields)
                 if (isinstance(t, Prim) and t.name in WIDEN) or (isinstance(t, Opt) and isinstance(t.inner, Prim) and t.inner.name in WIDEN)]
        if not cands:
            return None
        r, i = rng.choice(cands)
        n, t = r.fields[i]
        if isinstance(t, Opt):
            r.fields[i] = (n, Opt(Prim(WIDEN[t.inner.name])))
            return "widen_field %s.%s %s?->%s?" % (r.name, n, t.inner.name, WIDEN[t.inner.name])
        r.fields[i] = (n, Prim(WIDEN[t.name]))
        return "widen_field %s.%s %s->%s" % (r.name, n, t.name, WIDEN[t.name])
    if kind == "widen_vector_field":
        def _el(t):      # the widenable element of a vector: T or T?
            # (dynamic vectors only: the generated C++ conversion calls resize() on std::array - C08)
            if isinstance(t, Vec) and t.length is None and isinstance(t.inner, Prim) and t.inner.name in WIDEN:
                return t.inner.name, False
            if isinstance(t, Vec) and t.length is None and isinstance(t.inner, Opt) and isinstance(t.inner.inner, Prim) and t.inner.inner.name in WIDEN:
                return t.inner.inner.name, True
            return None
        cands = [(r, i) for r in recs for i, (_, t) in enumerate(r.fields) if _el(t)]
        if not cands:
            return None
        r, i = rng.choice(cands)
        n, t = r.fields[i]
        el, opt = _el(t)
        r.fields[i] = (n, Vec(Opt(Prim(WIDEN[el])) if opt else Prim(WIDEN[el]), t.length))
        return "widen_vector_field %s.%s %s%s*->%s%s*" % (r.name, n, el, "?" if opt else "", WIDEN[el], "?" if opt else "")
    if kind == "widen_step":
        cands = []
        for p in _protocols(pkg):
            for i, (n, t, st) in enumerate(p.steps):
                if isinstance(t, Prim) and t.name in WIDEN:
                    cands.append((p, i, Prim(WIDEN[t.name])))
                elif isinstance(t, Vec) and t.length is None and isinstance(t.inner, Prim) and t.inner.name in WIDEN and not st:
                    # (not for a stream of vectors: the generated C++ conversion nests two loops over the same variable
                    #  names and does not compile - C08, not claimed)
                    cands.append((p, i, Vec(Prim(WIDEN[t.inner.name]), t.length)))
                elif isinstance(t, Opt) and isinstance(t.inner, Prim) and t.inner.name in WIDEN:
                    cands.append((p, i, Opt(Prim(WIDEN[t.inner.name]))))
                elif isinstance(t, Vec) and t.length is None and isinstance(t.inner, Opt) and isinstance(t.inner.inner, Prim) and t.inner.inner.name in WIDEN and not st:
                    cands.append((p, i, Vec(Opt(Prim(WIDEN[t.inner.inner.name])), t.length)))
        if only_steps is not None:
            cands = [c for c in cands if c[0].steps[c[1]][0] in only_steps]
        if not cands:
            return None
        p, i, nt = rng.choice(cands)
        n, t, st = p.steps[i]
        p.steps[i] = (n, nt, st)
        return "widen_step %s.%s" % (p.name, n)
    if kind == "widen_alias":
        # the definition of a named type changes: `Id: float` -> `Id: double` (also T?, T*), wherever the name is used
        def _w(t):
            if isinstance(t, Prim) and t.name in WIDEN:
                return Prim(WIDEN[t.name])
            if isinstance(t, Opt) and isinstance(t.inner, Prim) and t.inner.name in WIDEN:
                return Opt(Prim(WIDEN[t.inner.name]))
            if isinstance(t, Vec) and t.length is None and isinstance(t.inner, Prim) and t.inner.name in WIDEN:
                return Vec(Prim(WIDEN[t.inner.name]))
            return None
        cands = [d for d in pkg.defs() if isinstance(d, Alias) and not d.params and _w(d.type) is not None and (only is None or d.name in only)]
        if not cands:
            return None
        a = rng.choice(cands)
        old = a.type
        a.type = _w(a.type)
        return "widen_alias %s %r->%r" % (a.name, old, a.type)
    if kind in ("narrow_union", "widen_to_union"):
        # [T, U] -> T (also as the element of a vector), and T -> [T, U]: "adding or removing types to/from a union", with the
        # scalar as the degenerate union.  Sites: record fields and protocol steps (only / only_steps restrict them).
        def _narrow(t):
            if isinstance(t, Union) and not t.nullable and len(t.cases) >= 2 and all(isinstance(c, Prim) for _, c in t.cases):
                return rng.choice([c for _, c in t.cases])
            if isinstance(t, Vec) and t.length is None and _narrow_ok(t.inner):
                return Vec(rng.choice([c for _, c in t.inner.cases]))
            return None

        def _narrow_ok(t):
            return isinstance(t, Union) and not t.nullable and len(t.cases) >= 2 and all(isinstance(c, Prim) for _, c in t.cases)

        def _widen(t):
            if isinstance(t, Prim) and t.name in ("int32", "string", "float64", "bool"):
                other = rng.choice([x for x in ("int32", "string", "float64", "bool") if x != t.name])
                cases = [(t.name, t), (other, Prim(other))]
                if rng.chance(0.5):
                    cases.reverse()
                return Union(tuple(cases))
            return None
        f = _narrow if kind == "narrow_union" else _widen
        cands = []
        for r in recs:
            for i, (n, t) in enumerate(r.fields):
                if (only_steps is None) and (_narrow_ok(t) or (isinstance(t, Vec) and t.length is None and _narrow_ok(t.inner)) if kind == "narrow_union" else (isinstance(t, Prim) and n.startswith("evowiden"))):
                    cands.append(("f", r, i))
        for p_ in _protocols(pkg):
            for i, (n, t, st) in enumerate(p_.steps):
                if only_steps is not None and n not in only_steps:
                    continue
                ok = (_narrow_ok(t) or (isinstance(t, Vec) and t.length is None and _narrow_ok(t.inner) and not st)) if kind == "narrow_union" else (isinstance(t, Prim) and only_steps is not None)
                if ok:
                    cands.append(("s", p_, i))
        if not cands:
            return None
        what, d, i = rng.choice(cands)
        if what == "f":
            n, t = d.fields[i]
            nt = f(t)
            if nt is None:
                return None
            d.fields[i] = (n, nt)
        else:
            n, t, st = d.steps[i]
            nt = f(t)
            if nt is None:
                return None
            d.steps[i] = (n, nt, st)
        return "%s %s.%s %r -> %r" % (kind, d.name, n, t, nt)
    if kind == "make_optional":
        cands = [(r, i) for r in recs for i, (_, t) in enumerate(r.fields) if isinstance(t, Prim)]
        if not cands:
            return None
        r, i = rng.choice(cands)
        n, t = r.fields[i]
        r.fields[i] = (n, Opt(t))
        return "make_optional %s.%s" % (r.name, n)
    if kind == "make_required":
        # T? -> T (the inverse of "making a field optional"): a null of the previous version becomes the zero value
        cands = [("f", r, i) for r in recs for i, (_, t) in enumerate(r.fields) if isinstance(t, Opt) and isinstance(t.inner, Prim)]
        if only is None:
            # (yardl does not accept T? -> T for the items of a stream)
            cands += [("s", p, i) for p in _protocols(pkg) for i, (_, t, st) in enumerate(p.steps) if isinstance(t, Opt) and isinstance(t.inner, Prim) and not st]
        if not cands:
            return None
        what, d, i = rng.choice(cands)
        if what == "f":
            n, t = d.fields[i]
            d.fields[i] = (n, t.inner)
        else:
            n, t, st = d.steps[i]
            d.steps[i] = (n, t.inner, st)
        return "make_required %s.%s" % (d.name, n)
    if kind in ("add_step", "add_stream_step"):
        ps = _protocols(pkg)
        if not ps:
            return None
        p = rng.choice(ps)
        n = _fresh_member([s for s, _, _ in p.steps], rng)
        shape = "stream" if kind == "add_stream_step" else rng.choice(["stream", "vector", "optional"])
        base = Prim(rng.choice(NO_BOOL))
        if shape == "stream":
            p.steps.append((n, base, True))
        elif shape == "vector":
            p.steps.append((n, Vec(base), False))
        else:
            p.steps.append((n, Opt(base), False))
        return "add_step %s.%s (%s)" % (p.name, n, shape)
    if kind == "add_def":
        name = _fresh_type_name(pkg, rng, "New")
        fn = rng.choice(sorted(pkg.files))
        nf = rng.randint(1, 3)
        names = []
        for _ in range(nf):
            names.append(_fresh_member(names, rng))
        pkg.files[fn].append(Record(name, (), [(n, Prim(rng.choice(SIMPLE_PRIMS))) for n in names]))
        return "add_def %s" % name
    if kind == "rename_with_alias":
        if not recs:
            return None
        r = rng.choice(recs)
        if any(isinstance(d, Alias) and isinstance(d.type, Named) and d.type.name == r.name for d in pkg.defs()):
            return None
        old = r.name
        new = _fresh_type_name(pkg, rng, "Ren")
        _rename_refs(pkg, old, new)
        r.name = new
        pkg.files[_file_of(pkg, r)].append(Alias(old, (), Named(new)))
        return "rename_with_alias %s->%s" % (old, new)
    if kind == "rename_case":
        # a type is renamed to a spelling that differs in letter case only (SampleRate -> Samplerate): another name to yardl and
        # to a case-sensitive file system, the same file name to a case-insensitive comparison
        cands = [d for d in pkg.defs() if isinstance(d, (Record, Enum)) and not getattr(d, "params", ()) and any(ch.isalpha() for ch in d.name[1:])]
        if not cands:
            return None
        d = rng.choice(cands)
        idx = [k for k in range(1, len(d.name)) if d.name[k].isalpha()]
        k = rng.choice(idx)
        new = d.name[:k] + d.name[k].swapcase() + d.name[k + 1:]
        if any(x.name == new for x in pkg.defs()):
            return None
        old = d.name
        _rename_refs(pkg, old, new)
        d.name = new
        return "rename_case %s->%s" % (old, new)
    if kind == "retype_field" and recs:
        r = rng.choice(recs)
        i = rng.randrange(len(r.fields))
        n, _ = r.fields[i]
        t = rng.choice([Prim(rng.choice(SIMPLE_PRIMS)), Vec(Prim(rng.choice(NO_BOOL))),
                        Map(Prim("string"), Prim(rng.choice(SIMPLE_PRIMS))), Opt(Prim(rng.choice(SIMPLE_PRIMS)))])
        r.fields[i] = (n, t)
        return "retype_field %s.%s" % (r.name, n)
    if kind == "add_protocol":
        name = _fresh_type_name(pkg, rng, "Proto")
        fn = rng.choice(sorted(pkg.files))
        steps = []
        for _ in range(rng.randint(1, 3)):
            steps.append((_fresh_member([s for s, _, _ in steps], rng), Prim(rng.choice(NO_BOOL)), rng.chance(0.5)))
        plain = [r for r in _records(pkg) if not r.params]
        if plain:
            # steps that carry records, so that later record edits reach the new protocol too
            steps.append((_fresh_member([s for s, _, _ in steps], rng), M.Named(rng.choice(plain).name), False))
            steps.append((_fresh_member([s for s, _, _ in steps], rng), M.Named(rng.choice(plain).name), True))
        pkg.files[fn].append(Protocol(name, steps))
        return "add_protocol %s" % name
    if kind == "shrink_enum":
        # several symbols of one enum removed and others renumbered at once (never evolution-safe)
        es = [d for d in pkg.defs() if isinstance(d, Enum) and not d.flags and len(d.values) >= 3]
        if not es:
            # make one: an enum with many symbols is needed in the *previous* version too, so this only helps on later steps
            return None
        e = rng.choice(es)
        keep = rng.randint(1, len(e.values) - 2)
        gone = e.values[keep:]
        e.values = e.values[:keep]
        used = {v for _, v in e.values}
        lo, hi = M.INT_RANGE[e.base or "int32"]
        for i, (sym, v) in enumerate(list(e.values)):
            if rng.chance(0.6):
                nv = next((x for x in range(max(lo, 0), 127) if x not in used and x != v and x <= hi), None)
                if nv is not None:
                    used.add(nv)
                    e.values[i] = (sym, nv)
        return "shrink_enum %s (removed %s)" % (e.name, ",".join(s_ for s_, _ in gone))
    if kind == "widen_enum_base":
        # (the documentation lists every change of an enum as incompatible; used for chains that are only judged if yardl accepts them)
        wider = {"int8": ["int16", "int32", "int64"], "uint8": ["uint16", "uint32", "uint64", "size"], "int16": ["int32", "int64"], "uint16": ["uint32", "uint64"]}
        es = [d for d in pkg.defs() if isinstance(d, Enum) and (only is None or d.name in only) and (d.base or "int32") in wider and not d.base_alias]
        if not es:
            return None
        e = rng.choice(es)
        old = e.base
        e.base = rng.choice(wider[old])
        return "widen_enum_base %s %s->%s" % (e.name, old, e.base)
    if kind == "change_enum":
        es = [d for d in pkg.defs() if isinstance(d, Enum) and not d.flags]
        if not es:
            return None
        e = rng.choice(es)
        lo, hi = M.INT_RANGE[e.base or "int32"]
        used = {v for _, v in e.values}
        for v in range(0, 120):
            if v not in used and lo <= v <= hi:
                e.values.append((_fresh_member([s for s, _ in e.values], rng), v))
                return "change_enum %s" % e.name
        return None
    return None


def _rename_type(t, old, new):
    if isinstance(t, Named):
        return Named(new if (t.name == old and t.ns is None) else t.name, tuple(_rename_type(a, old, new) for a in t.args), t.ns)
    if isinstance(t, Opt):
        return Opt(_rename_type(t.inner, old, new))
    if isinstance(t, Union):
        return replace(t, cases=tuple((tag, _rename_type(c, old, new)) for tag, c in t.cases))
    if isinstance(t, Vec):
        return replace(t, inner=_rename_type(t.inner, old, new))
    if isinstance(t, Arr):
        return replace(t, inner=_rename_type(t.inner, old, new))
    if isinstance(t, Map):
        return Map(_rename_type(t.key, old, new), _rename_type(t.value, old, new))
    return t


def _rename_refs(pkg, old, new):
    for d in pkg.defs():
        if isinstance(d, Record):
            d.fields = [(n, _rename_type(t, old, new)) for n, t in d.fields]
        elif isinstance(d, Alias):
            d.type = _rename_type(d.type, old, new)
        elif isinstance(d, Protocol):
            d.steps = [(n, _rename_type(t, old, new), s) for n, t, s in d.steps]


def evolve(pkg: M.Package, rng: Rng, n: int, kinds) -> tuple:
    """Deep copy of pkg with n edits drawn from kinds applied. Returns (new pkg, [descriptions])."""
    new = copy.deepcopy(pkg)
    new.render_seed = pkg.render_seed
    if hasattr(pkg, "hands_off"):
        new.hands_off = tuple(pkg.hands_off)
    log = []
    tries = 0
    while len(log) < n and tries < n * 6:
        tries += 1
        d = apply_edit(new, rng, rng.choice(kinds))
        if d:
            log.append(d)
    return new, log


RECORD_EDITS = ["add_optional_field", "remove_optional_field", "reorder_fields", "add_field", "remove_field", "widen_field", "make_optional", "widen_vector_field", "make_required"]


def with_versions(pkg: M.Package, rng: Rng, n_versions: int, partial: bool, must_edit=(), order="oldest_first", p_new_protocol=0.0, layout="siblings", widen_steps=(), widen_aliases=(), union_steps=(), to_union_steps=(), tail_records=(), fixed_vector_records=(), reorder_only=(), enum_bases=(), tail_p=0.6, add_stream_p=0.0) -> M.Package:
    """Treat pkg as the oldest version; evolve it n_versions times; the newest package lists all
    its predecessors under `versions:`.  Returns the newest package.
    must_edit: names of records that each get at least one record edit in every evolution step.
    reorder_only: names of records whose fields are put into another order now and then and that no other edit touches."""
    if reorder_only:
        pkg.hands_off = tuple(reorder_only)
    chain = [pkg]
    kinds = COMPATIBLE + (PARTIAL if partial else [])
    cur = pkg
    log = []
    for i in range(n_versions):
        cur, l = evolve(cur, rng.fork("evolve", i), rng.randint(1, 4), kinds)
        r3 = rng.fork("newproto", i)
        if r3.chance(p_new_protocol):
            # a protocol that the older versions do not have at all (and that later steps may go on to change)
            d = apply_edit(cur, r3, "add_protocol")
            if d:
                l.append(d)
        r4 = rng.fork("widen", i)
        if widen_steps and partial and r4.chance(0.5):
            # element types of the named steps (T, T*, T?, T?* and streams of T / T?) get wider
            d = apply_edit(cur, r4, "widen_step", only_steps=tuple(r4.sample(list(widen_steps), r4.randint(1, len(widen_steps)))))
            if d:
                l.append(d)
        r5 = rng.fork("widenalias", i)
        if widen_aliases and partial and r5.chance(0.5):
            for name in r5.sample(list(widen_aliases), r5.randint(1, len(widen_aliases))):
                d = apply_edit(cur, r5, "widen_alias", only=(name,))
                if d:
                    l.append(d)
        r6 = rng.fork("unions", i)
        if partial and union_steps and r6.chance(0.5):
            d = apply_edit(cur, r6, "narrow_union", only_steps=tuple(r6.sample(list(union_steps), r6.randint(1, len(union_steps)))))
            if d:
                l.append(d)
        if partial and union_steps and r6.chance(0.3):
            d = apply_edit(cur, r6, "narrow_union")            # (a record field)
            if d:
                l.append(d)
        if partial and to_union_steps and r6.chance(0.4):
            d = apply_edit(cur, r6, "widen_to_union", only_steps=tuple(r6.sample(list(to_union_steps), 1)))
            if d:
                l.append(d)
        r8 = rng.fork("fixedvec", i)
        if partial and fixed_vector_records and r8.chance(0.6):
            d = apply_edit(cur, r8, "add_fixed_vector_field", only=tuple(fixed_vector_records))
            if d:
                l.append(d)
        r10 = rng.fork("enumbase", i)
        if enum_bases and r10.chance(0.7):
            d = apply_edit(cur, r10, "widen_enum_base", only=tuple(enum_bases))
            if d:
                l.append(d)
        r11 = rng.fork("addstream", i)
        if add_stream_p and r11.chance(add_stream_p):
            # a trailing stream step that the versions before this one do not have
            d = apply_edit(cur, r11, "add_stream_step")
            if d:
                l.append(d)
        r9 = rng.fork("reorderonly", i)
        for name in reorder_only:
            if r9.chance(0.6):
                d = apply_edit(cur, r9, "reorder_fields", only=(name,))
                if d:
                    l.append(d)
        r7 = rng.fork("tail", i)
        if partial and tail_records and r7.chance(tail_p):
            d = apply_edit(cur, r7, "remove_last_field", only=tuple(tail_records))
            if d:
                l.append(d)
        r2 = rng.fork("must", i)
        for name in must_edit:
            for _ in range(8):
                d = apply_edit(cur, r2, r2.choice([k for k in RECORD_EDITS if k in kinds]), only=(name,))
                if d:
                    l.append(d)
                    break
        log.append(l)
        chain.append(cur)
    newest = chain[-1]
    newest.edit_log = log
    newest.versions = []
    for i, old in enumerate(chain[:-1]):
        old = copy.deepcopy(old)
        old.dirname = "%s_v%d" % (pkg.dirname, i)
        if layout == "archive":
            # every version is a snapshot of the whole tree: its own copy of the package *and of the packages it imports*,
            # so the same relative import path means a different directory in every version
            old.dirname = "archive/v%d/%s" % (i, pkg.dirname)
            for q in old.all_packages()[:-1]:
                q.dirname = "archive/v%d/%s" % (i, q.dirname)
        old.versions = []
        old.targets = {}
        newest.versions.append(("v%d" % i, old))
    # the order in which the manifest lists the versions is an input of its own
    if order == "newest_first":
        newest.versions.reverse()
    elif order == "shuffled":
        rng.fork("order").shuffle(newest.versions)
    return newest


# ----------------------------------------------------------------------------------------
# Invalidations (text level, applied to a rendered tree {abs path: text})
# ----------------------------------------------------------------------------------------

INVALID_KINDS = ["yaml_syntax", "duplicate_type", "unknown_type", "bad_field_name", "unknown_manifest_key",
                 "missing_namespace", "dup_version_label", "stream_in_record"]
# (a record as map key and a stream of streams are accepted by yardl - the pinned upstream too - although the language guide rules them
#  out: C09's business; they are not used as "certainly invalid" changes)
RULE_KINDS = ["generic_arity", "unused_type_parameter", "duplicate_union_case", "duplicate_enum_value", "recursive_record",
              "computed_field_unknown_member", "computed_field_bad_call", "duplicate_field", "reserved_primitive_name", "null_not_first",
              "generic_given_one_type_twice"]


def model_files(files: dict, pkgdir: str) -> list:
    return sorted(p for p in files if p.startswith(pkgdir + "/") and p.rsplit("/", 1)[0] == pkgdir
                  and (p.endswith(".yml") or p.endswith(".yaml")) and not p.endswith("/_package.yml"))


def invalidate(files: dict, pkgdir: str, rng: Rng, kind: str) -> tuple:
    """Returns (new files dict, description) with exactly one certainly-invalid change made to the
    package in pkgdir, or (None, None) if the kind does not apply."""
    files = dict(files)
    mfs = model_files(files, pkgdir)
    man = pkgdir + "/_package.yml"
    if kind == "yaml_syntax" and mfs:
        p = rng.choice(mfs)
        files[p] = files[p] + "\nBroken: !record\n  fields: [unclosed\n"
        return files, "yaml syntax error appended to " + p
    if kind == "duplicate_type" and mfs:
        p = rng.choice(mfs)
        src = rng.choice(mfs)
        first = files[src].split("\n", 1)[0]
        name = first.split(":")[0].split("<")[0].strip()
        if not name or not name[0].isupper():
            return None, None
        files[p] = files[p] + "\n%s: !record\n  fields:\n    dup: int\n" % name
        return files, "duplicate definition of %s in %s" % (name, p)
    if kind == "unknown_type" and mfs:
        p = rng.choice(mfs)
        files[p] = files[p] + "\nDangling%d: !record\n  fields:\n    ref: NoSuchType%d\n" % (rng.randint(1, 99), rng.randint(1, 99))
        return files, "reference to unknown type in " + p
    if kind == "bad_field_name" and mfs:
        p = rng.choice(mfs)
        files[p] = files[p] + "\nBadName%d: !record\n  fields:\n    Not_camel: int\n" % rng.randint(1, 99)
        return files, "badly cased field name in " + p
    if kind == "stream_in_record" and mfs:
        p = rng.choice(mfs)
        files[p] = files[p] + "\nStreamy%d: !record\n  fields:\n    s: !stream {items: int}\n" % rng.randint(1, 99)
        return files, "stream outside protocol step in " + p
    if kind == "unqualified_import_ref" and mfs:
        # the namespace qualifier forgotten on a type of another package - preferably a name that several other packages define
        import re
        mine, theirs = set(), {}
        for q, text in files.items():
            if not (q.endswith(".yml") or q.endswith(".yaml")) or q.endswith("/_package.yml"):
                continue
            names = set(re.findall(r"^([A-Z][A-Za-z0-9]*)(?:<[^>]*>)?:", text, re.M))
            if q.rsplit("/", 1)[0] == pkgdir:
                mine |= names
            else:
                for nme in names:
                    theirs.setdefault(nme, set()).add(q.rsplit("/", 1)[0])
        cands = sorted(n for n in theirs if n not in mine)
        if not cands:
            return None, None
        shared = [n for n in cands if len(theirs[n]) >= 2]
        name = rng.choice(shared) if shared and rng.chance(0.8) else rng.choice(cands)
        p = rng.choice(mfs)
        files[p] = files[p] + "\nUnq%d: !record\n  fields:\n    ref: %s\n" % (rng.randint(1, 99), name)
        return files, "unqualified reference to %s (defined in %d other package directories) in %s" % (name, len(theirs[name]), p)
    RULE_BREAKERS = {
        # one definition each that breaks exactly one language rule (docs/*/language.md)
        "generic_arity": "GenAr%d<T>: !record\n  fields:\n    a: T\n\nUsesGenAr%d: !record\n  fields:\n    b: GenAr%d<int, int>\n",
        "unused_type_parameter": "UnusedTp%d<T>: !record\n  fields:\n    a: int\n",
        "duplicate_union_case": "DupCase%d: !record\n  fields:\n    u: [int, int]\n",
        "record_as_map_key": "KeyRec%d: !record\n  fields:\n    a: int\n\nBadMap%d: !record\n  fields:\n    m: KeyRec%d->int\n",
        "duplicate_enum_value": "DupEnum%d: !enum\n  values:\n    a: 1\n    b: 1\n",
        "recursive_record": "Cyc%d: !record\n  fields:\n    me: Cyc%d\n",
        "computed_field_unknown_member": "Cf%d: !record\n  fields:\n    a: int\n  computedFields:\n    b: nosuch\n",
        "computed_field_bad_call": "Cg%d: !record\n  fields:\n    a: int\n  computedFields:\n    b: size(a)\n",
        "duplicate_field": "DupF%d: !record\n  fields:\n    a: int\n    a: string\n",
        "reserved_primitive_name": "int32: !record\n  fields:\n    a: int\n",
        "null_not_first": "NullPos%d: !record\n  fields:\n    u: [int, null]\n",
        "stream_of_stream": "NestedS%d: !protocol\n  sequence:\n    s: !stream\n      items: !stream\n        items: int\n",
    }
    if kind == "generic_given_one_type_twice" and mfs:
        # a generic union that is used correctly first - also with two types that merely look alike, the same simple name in
        # two imported namespaces, where the package has such a pair - and then with one type for both parameters
        import os.path as _op, re as _re
        k = rng.randint(100, 999)
        byname = {}
        for rel in _re.findall(r"^\s*-\s*(\.\./[\w./-]+)\s*$", files.get(man, ""), _re.M):
            d = _op.normpath(pkgdir + "/" + rel)
            m = _re.search(r"^namespace:\s*(\w+)", files.get(d + "/_package.yml", ""), _re.M)
            if not m:
                continue
            for q in model_files(files, d):
                for nm in _re.findall(r"^([A-Z][A-Za-z0-9]*): !record", files[q], _re.M):
                    byname.setdefault(nm, [])
                    if m.group(1) not in byname[nm]:
                        byname[nm].append(m.group(1))
        pairs = sorted((nm, nss) for nm, nss in byname.items() if len(nss) >= 2)
        text = "GenEither%d<A, B>: !union\n  first: A\n  second: B\n\nUsesGenEither%d: !record\n  fields:\n    fine: GenEither%d<int, string>\n" % (k, k, k)
        if pairs:
            nm, nss = rng.choice(pairs)
            text += "    alike: GenEither%d<%s.%s, %s.%s>\n    twice: GenEither%d<%s.%s, %s.%s>\n" % (k, nss[0], nm, nss[1], nm, k, nss[0], nm, nss[0], nm)
        else:
            text += "    twice: GenEither%d<string, string>\n" % k
        p = rng.choice(mfs)
        files[p] = files[p] + "\n" + text
        return files, "generic union given one type twice%s in %s" % (" after a look-alike pair from two namespaces" if pairs else "", p)
    if kind in RULE_BREAKERS and mfs:
        p = rng.choice(mfs)
        k = rng.randint(100, 999)
        text = RULE_BREAKERS[kind]
        files[p] = files[p] + "\n" + (text % ((k,) * text.count("%d")))
        return files, "%s in %s" % (kind.replace("_", " "), p)
    if kind == "unknown_manifest_key" and man in files:
        files[man] = files[man] + "bogusKey: 1\n"
        return files, "unknown key in " + man
    if kind == "missing_namespace" and man in files:
        lines = [l for l in files[man].split("\n") if not l.startswith("namespace:")]
        files[man] = "\n".join(lines)
        return files, "namespace removed from " + man
    if kind == "dup_version_label" and man in files and "versions:" in files[man]:
        lines = files[man].split("\n")
        i = lines.index("versions:")
        if i + 1 < len(lines) and lines[i + 1].startswith("  "):
            label = lines[i + 1].split(":")[0].strip()
            # a second entry with a distinct YAML key that yardl treats as the same label is not
            # expressible; use an invalid label instead (labels must match the documented format)
            lines.insert(i + 1, "  9bad-label: " + lines[i + 1].split(":", 1)[1].strip())
            files[man] = "\n".join(lines)
            return files, "invalid version label in " + man
    return None, None
