"""Workload generator, part 1: yardl packages.

Own AST for yardl models (no code shared with yardl), YAML rendering in both the shorthand
and the expanded syntax, and a seeded random generator of packages that are valid by
construction (rules collected from docs/*/language.md and tooling/pkg/dsl/validation*.go).

Used by both simulators: toolworld gets rendered packages plus edit scripts; streamworld also
gets the AST, to build values and to drive the reference codec.
"""
from __future__ import annotations

import copy
import posixpath
from dataclasses import dataclass, field, replace
from typing import Optional, Union as U

# ----------------------------------------------------------------------------------------
# Deterministic PRNG (splitmix64) — one integer decides everything
# ----------------------------------------------------------------------------------------

MASK = (1 << 64) - 1


class Rng:
    def __init__(self, seed: int):
        self.s = (seed * 0x9E3779B97F4A7C15 + 0x1234567) & MASK

    def next(self) -> int:
        self.s = (self.s + 0x9E3779B97F4A7C15) & MASK
        z = self.s
        z = ((z ^ (z >> 30)) * 0xBF58476D1CE4E5B9) & MASK
        z = ((z ^ (z >> 27)) * 0x94D049BB133111EB) & MASK
        return z ^ (z >> 31)

    def randrange(self, n: int) -> int:
        return self.next() % n

    def randint(self, a: int, b: int) -> int:
        return a + self.next() % (b - a + 1)

    def random(self) -> float:
        return (self.next() >> 11) / float(1 << 53)

    def chance(self, p: float) -> bool:
        return self.random() < p

    def choice(self, seq):
        return seq[self.next() % len(seq)]

    def weighted(self, pairs):
        tot = sum(w for _, w in pairs)
        x = self.random() * tot
        for v, w in pairs:
            x -= w
            if x < 0:
                return v
        return pairs[-1][0]

    def shuffle(self, lst):
        for i in range(len(lst) - 1, 0, -1):
            j = self.next() % (i + 1)
            lst[i], lst[j] = lst[j], lst[i]

    def sample(self, seq, k):
        l = list(seq)
        self.shuffle(l)
        return l[:k]

    def fork(self, *purpose) -> "Rng":
        h = self.s
        for p in purpose:
            for ch in str(p).encode():
                h = ((h ^ ch) * 0x100000001B3) & MASK
        return Rng(h)


def derive(seed: int, *purpose) -> Rng:
    return Rng(seed).fork(*purpose)


# ----------------------------------------------------------------------------------------
# AST
# ----------------------------------------------------------------------------------------

INT_PRIMS = ["int8", "uint8", "int16", "uint16", "int32", "uint32", "int64", "uint64", "size"]
FLOAT_PRIMS = ["float32", "float64"]
COMPLEX_PRIMS = ["complexfloat32", "complexfloat64"]
TIME_PRIMS = ["date", "time", "datetime"]
ALL_PRIMS = ["bool"] + INT_PRIMS + FLOAT_PRIMS + COMPLEX_PRIMS + ["string"] + TIME_PRIMS
PRIM_SPELLINGS = {
    "uint8": ["uint8", "byte"], "int32": ["int32", "int"], "uint32": ["uint32", "uint"],
    "int64": ["int64", "long"], "uint64": ["uint64", "ulong"], "float32": ["float32", "float"],
    "float64": ["float64", "double"], "complexfloat32": ["complexfloat32", "complexfloat"],
    "complexfloat64": ["complexfloat64", "complexdouble"],
}
INT_RANGE = {
    "int8": (-(1 << 7), (1 << 7) - 1), "uint8": (0, (1 << 8) - 1),
    "int16": (-(1 << 15), (1 << 15) - 1), "uint16": (0, (1 << 16) - 1),
    "int32": (-(1 << 31), (1 << 31) - 1), "uint32": (0, (1 << 32) - 1),
    "int64": (-(1 << 63), (1 << 63) - 1), "uint64": (0, (1 << 64) - 1), "size": (0, (1 << 64) - 1),
}


@dataclass(frozen=True)
class Prim:
    name: str


@dataclass(frozen=True)
class Named:
    name: str
    args: tuple = ()
    ns: Optional[str] = None  # namespace qualifier for imported types


@dataclass(frozen=True)
class TParam:
    name: str


@dataclass(frozen=True)
class Opt:
    inner: "Type"


@dataclass(frozen=True)
class Union:
    cases: tuple  # ((tag, type), ...)  non-null cases
    nullable: bool = False
    explicit: bool = False  # rendered with !union and explicit tags


@dataclass(frozen=True)
class Vec:
    inner: "Type"
    length: Optional[int] = None


@dataclass(frozen=True)
class Arr:
    inner: "Type"
    # None: dynamic; int: number of dimensions; tuple of (name|None, length|None)
    dims: U[None, int, tuple] = None


@dataclass(frozen=True)
class Map:
    key: "Type"
    value: "Type"


Type = U[Prim, Named, TParam, Opt, Union, Vec, Arr, Map]


@dataclass
class Record:
    name: str
    params: tuple
    fields: list  # [(name, type)]
    computed: list = field(default_factory=list)  # [(name, expr text)]
    comment: str = ""


@dataclass
class Enum:
    name: str
    base: Optional[str]
    values: list  # [(symbol, int)]
    flags: bool = False
    explicit_values: bool = True
    comment: str = ""
    base_alias: str = ""   # name of an alias (of the primitive `base`) that the definition names as its base type instead


@dataclass
class Alias:
    name: str
    params: tuple
    type: Type
    comment: str = ""


@dataclass
class Protocol:
    name: str
    steps: list  # [(name, type, is_stream)]
    comment: str = ""


@dataclass
class Package:
    namespace: str
    dirname: str
    files: dict  # filename -> [definitions]
    imports: list = field(default_factory=list)  # [Package]
    versions: list = field(default_factory=list)  # [(label, Package)]
    targets: dict = field(default_factory=dict)  # "cpp"/"python"/"json"/"matlab" -> {option: value}
    expanded_syntax: float = 0.3  # probability of rendering a type in expanded syntax (decided per package seed)
    render_seed: int = 0
    self_version: str = ""  # label under which the manifest lists the package's own directory as a version (by a second name)

    def defs(self):
        for fn in sorted(self.files):
            for d in self.files[fn]:
                yield d

    def find(self, name):
        for d in self.defs():
            if d.name == name:
                return d
        return None

    def all_packages(self):
        seen = {}

        def rec(p):
            if p.namespace in seen:
                return
            for i in p.imports:
                rec(i)
            seen[p.namespace] = p

        rec(self)
        return list(seen.values())


# ----------------------------------------------------------------------------------------
# Environment: name resolution, generic substitution
# ----------------------------------------------------------------------------------------


class Env:
    """Resolves Named references of a package (its own namespace and its imports').
    All types handed to resolve() must be fully qualified (see qualify())."""

    def __init__(self, pkg: Package):
        self.pkg = pkg
        self.by_ns = {p.namespace: p for p in pkg.all_packages()}

    def lookup(self, t: Named):
        p = self.by_ns[t.ns]
        d = p.find(t.name)
        if d is None:
            raise KeyError("%s.%s" % (t.ns, t.name))
        return d

    def resolve(self, t: Type, subst=None):
        """One step of resolution: aliases expanded and type parameters substituted until a
        structural type, ('record', Record, {param: closed type}, ns) or ('enum', Enum, ns)."""
        subst = subst or {}
        if isinstance(t, TParam):
            return self.resolve(subst[t.name], {})
        if isinstance(t, Named):
            d = self.lookup(t)
            args = {}
            if isinstance(d, (Record, Alias)):
                for pn, a in zip(d.params, t.args):
                    args[pn] = substitute(a, subst)
            if isinstance(d, Alias):
                return self.resolve(qualify(d.type, t.ns), args)
            if isinstance(d, Record):
                return ("record", d, args, t.ns)
            if isinstance(d, Enum):
                return ("enum", d, t.ns)
            raise TypeError("cannot reference %r" % d)
        return substitute(t, subst)

    def record_fields(self, r):
        """[(name, closed qualified type)] of a resolved record."""
        _, d, args, ns = r
        return [(n, substitute(qualify(ft, ns), args)) for n, ft in d.fields]


def qualify(t: Type, ns: str):
    """Make every Named reference in t carry its namespace explicitly."""
    if isinstance(t, Named):
        return Named(t.name, tuple(qualify(a, ns) for a in t.args), t.ns or ns)
    if isinstance(t, Opt):
        return Opt(qualify(t.inner, ns))
    if isinstance(t, Union):
        return replace(t, cases=tuple((tag, qualify(c, ns)) for tag, c in t.cases))
    if isinstance(t, Vec):
        return replace(t, inner=qualify(t.inner, ns))
    if isinstance(t, Arr):
        return replace(t, inner=qualify(t.inner, ns))
    if isinstance(t, Map):
        return Map(qualify(t.key, ns), qualify(t.value, ns))
    return t


def substitute(t: Type, subst):
    """Structural substitution of type parameters by closed, fully qualified types."""
    if not subst:
        return t
    if isinstance(t, TParam):
        return subst.get(t.name, t)
    if isinstance(t, Named):
        return replace(t, args=tuple(substitute(a, subst) for a in t.args))
    if isinstance(t, Opt):
        return Opt(substitute(t.inner, subst))
    if isinstance(t, Union):
        return replace(t, cases=tuple((tag, substitute(c, subst)) for tag, c in t.cases))
    if isinstance(t, Vec):
        return replace(t, inner=substitute(t.inner, subst))
    if isinstance(t, Arr):
        return replace(t, inner=substitute(t.inner, subst))
    if isinstance(t, Map):
        return Map(substitute(t.key, subst), substitute(t.value, subst))
    return t


# ----------------------------------------------------------------------------------------
# Rendering
# ----------------------------------------------------------------------------------------


def prim_spelling(name: str, rng: Optional[Rng]) -> str:
    if rng is None or name not in PRIM_SPELLINGS:
        return name
    return rng.choice(PRIM_SPELLINGS[name])


def _dims_short(dims) -> str:
    if dims is None:
        return "[]"
    if isinstance(dims, int):
        return "[()]" if dims == 1 else "[" + "," * (dims - 1) + "]"
    parts = []
    for name, length in dims:
        if name is not None and length is not None:
            parts.append("%s:%d" % (name, length))
        elif name is not None:
            parts.append(name)
        elif length is not None:
            parts.append(str(length))
        else:
            parts.append("")
    if len(parts) == 1 and parts[0] == "":
        return "[()]"
    return "[" + ",".join(parts) + "]"


def short(t: Type, rng: Optional[Rng] = None, top=True) -> Optional[str]:
    """Shorthand syntax of t, or None when t cannot be written in shorthand (contains a union)."""
    if isinstance(t, Prim):
        return prim_spelling(t.name, rng)
    if isinstance(t, TParam):
        return t.name
    if isinstance(t, Named):
        s = (t.ns + "." if t.ns else "") + t.name
        if t.args:
            parts = [short(a, rng, True) for a in t.args]
            if any(p is None for p in parts):
                return None
            s += "<" + ", ".join(parts) + ">"
        return s
    if isinstance(t, Union):
        return None
    if isinstance(t, Opt):
        s = short(t.inner, rng, False)
        return None if s is None else s + "?"
    if isinstance(t, Vec):
        s = short(t.inner, rng, False)
        if s is None:
            return None
        return s + "*" + (str(t.length) if t.length is not None else "")
    if isinstance(t, Arr):
        s = short(t.inner, rng, False)
        return None if s is None else s + _dims_short(t.dims)
    if isinstance(t, Map):
        k, v = short(t.key, rng, False), short(t.value, rng, True)
        if k is None or v is None:
            return None
        # a value that is itself a map, or that ends in a tail operator, binds as written
        if isinstance(t.value, Map):
            v = "(" + v + ")"
        s = k + "->" + v
        return s if top else "(" + s + ")"
    raise TypeError(t)


def q(s: str) -> str:
    """YAML scalar: plain when it is a simple identifier-like token, double-quoted otherwise."""
    if s and all(c.isalnum() or c in "._" for c in s) and not s[0].isdigit():
        return s
    return '"' + s.replace("\\", "\\\\").replace('"', '\\"') + '"'


def node(t: Type, rng: Optional[Rng] = None, p_expand: float = 0.0) -> str:
    """Flow-style YAML node for t."""
    s = short(t, rng)
    if s is not None and not (rng is not None and p_expand > 0 and rng.chance(p_expand) and not isinstance(t, (Prim, Named, TParam))):
        return q(s)
    if isinstance(t, Named) and s is None:
        return "!generic {name: %s, args: [%s]}" % (q((t.ns + "." if t.ns else "") + t.name), ", ".join(node(a, rng, p_expand) for a in t.args))
    if isinstance(t, (Prim, Named, TParam)):
        return q(s)
    if isinstance(t, Opt):
        return "[null, %s]" % node(t.inner, rng, p_expand)
    if isinstance(t, Union):
        if t.explicit:
            items = ["%s: %s" % (tag, node(c, rng, p_expand)) for tag, c in t.cases]
            if t.nullable:
                items = ["null: null"] + items
            return "!union {" + ", ".join(items) + "}"
        items = [node(c, rng, p_expand) for _, c in t.cases]
        if t.nullable:
            items = ["null"] + items
        return "[" + ", ".join(items) + "]"
    if isinstance(t, Vec):
        s = "!vector {items: %s" % node(t.inner, rng, p_expand)
        if t.length is not None:
            s += ", length: %d" % t.length
        return s + "}"
    if isinstance(t, Arr):
        s = "!array {items: %s" % node(t.inner, rng, p_expand)
        if t.dims is None:
            return s + "}"
        if isinstance(t.dims, int):
            return s + ", dimensions: %d}" % t.dims
        if all(n is None for n, _ in t.dims):
            return s + ", dimensions: [%s]}" % ", ".join(str(l) for _, l in t.dims) if all(l is not None for _, l in t.dims) else s + ", dimensions: %d}" % len(t.dims)
        if all(l is None for _, l in t.dims):
            return s + ", dimensions: [%s]}" % ", ".join(n for n, _ in t.dims)
        return s + ", dimensions: {%s}}" % ", ".join("%s: %d" % (n, l) for n, l in t.dims)
    if isinstance(t, Map):
        return "!map {keys: %s, values: %s}" % (node(t.key, rng, p_expand), node(t.value, rng, p_expand))
    raise TypeError(t)


def render_def(d, rng: Optional[Rng], p_expand: float) -> str:
    # Spelling choices (shorthand or expanded syntax, primitive aliases, hex) are a function of the package's render seed and of
    # the *names* of the definition and member, not of what was rendered before: an unchanged member is spelled alike in every
    # version of a package.  (yardl - the pinned upstream too - reports `T?` in one version against `[null, T]` in the other as
    # an incompatible change when it sits inside a vector or stream; that is C06/C13 territory and made most version chains
    # that have such members unusable for C05.)
    base = rng
    def fork(*names):
        return base.fork("spell", d.name, *names) if base is not None else None
    out = []
    if d.comment:
        out.append("# " + d.comment)
    head = d.name
    if getattr(d, "params", ()):
        head += "<" + ", ".join(d.params) + ">"
    if isinstance(d, Record):
        out.append("%s: !record" % head)
        out.append("  fields:")
        for n, t in d.fields:
            out.append("    %s: %s" % (n, node(t, fork(n), p_expand)))
        if d.computed:
            out.append("  computedFields:")
            for n, e in d.computed:
                out.append("    %s: %s" % (n, e))
    elif isinstance(d, Enum):
        out.append("%s: %s" % (head, "!flags" if d.flags else "!enum"))
        if d.base and getattr(d, "base_alias", ""):
            out.append("  base: %s" % d.base_alias)
        elif d.base:
            out.append("  base: %s" % prim_spelling(d.base, fork("base")))
        out.append("  values:")
        if d.explicit_values:
            for s, v in d.values:
                out.append("    %s: %s" % (s, hex(v) if (rng is not None and v >= 0 and fork(s).chance(0.2)) else str(v)))
        else:
            for s, _ in d.values:
                out.append("    - %s" % s)
    elif isinstance(d, Alias):
        out.append("%s: %s" % (head, node(d.type, fork("alias"), p_expand)))
    elif isinstance(d, Protocol):
        out.append("%s: !protocol" % head)
        out.append("  sequence:")
        for n, t, stream in d.steps:
            if stream:
                if rng is not None and fork(n, "flow").chance(0.5):
                    out.append("    %s: !stream {items: %s}" % (n, node(t, fork(n), p_expand)))
                else:
                    out.append("    %s: !stream" % n)
                    out.append("      items: %s" % node(t, fork(n), p_expand))
            else:
                out.append("    %s: %s" % (n, node(t, fork(n), p_expand)))
    else:
        raise TypeError(d)
    return "\n".join(out) + "\n"


TARGET_KEYS = {"cpp": "sourcesOutputDir", "python": "outputDir", "json": "outputDir", "matlab": "outputDir"}


def render_manifest(pkg: Package, import_paths: list, version_paths: list) -> str:
    out = ["namespace: %s" % pkg.namespace]
    if import_paths:
        out.append("imports:")
        for p in import_paths:
            out.append("  - %s" % p)
    if version_paths:
        out.append("versions:")
        for label, p in version_paths:
            out.append("  %s: %s" % (label, p))
    for tgt in ("cpp", "python", "json", "matlab"):
        if tgt in pkg.targets:
            out.append("%s:" % tgt)
            for k, v in pkg.targets[tgt].items():
                if isinstance(v, bool):
                    v = "true" if v else "false"
                out.append("  %s: %s" % (k, v))
    return "\n".join(out) + "\n"


def render_files(pkg: Package) -> dict:
    """Model files of one package: {filename: text}."""
    rng = Rng(pkg.render_seed) if pkg.render_seed else None
    out = {}
    for fn in sorted(pkg.files):
        parts = [render_def(d, rng, pkg.expanded_syntax) for d in pkg.files[fn]]
        out[fn] = "\n".join(parts)
    return out


def render_tree(pkg: Package, root: str) -> dict:
    """All files of pkg, its imports and its versions below root: {abs path: text}.
    Layout: root/<dirname>/..., imports and versions as sibling directories."""
    files = {}

    def emit(p: Package):
        base = root + "/" + p.dirname
        if base + "/_package.yml" in files:
            return
        # (dirnames may be nested ("archive/v0/pkg"); a package marked via_link is named through the symbolic link <dirname>_link,
        #  which whoever sets the mark has to create next to the directory)
        rel = lambda q: posixpath.relpath(root + "/" + q.dirname + ("_link" if getattr(q, "via_link", False) else ""), base)
        files[base + "/_package.yml"] = render_manifest(
            p, [rel(i) for i in p.imports],
            [(l, rel(v)) for l, v in p.versions] + ([(p.self_version, "../" + p.dirname.rsplit("/", 1)[-1])] if getattr(p, "self_version", "") else []))
        for fn, text in render_files(p).items():
            files[base + "/" + fn] = text
        for i in p.imports:
            emit(i)
        for _, v in p.versions:
            emit(v)

    emit(pkg)
    return files


# ----------------------------------------------------------------------------------------
# Random generation
# ----------------------------------------------------------------------------------------

WORDS = ["alpha", "bravo", "carbon", "delta", "ember", "fjord", "gamma", "helix", "iris", "jade", "kappa",
         "lumen", "metro", "nova", "onyx", "prism", "quark", "radon", "sigma", "terra", "umbra", "vega",
         "wave", "xenon", "yotta", "zeta"]


@dataclass
class GenConfig:
    """Swarm configuration: which constructors are enabled and how deep types nest."""
    max_depth: int = 3
    n_enums: tuple = (0, 3)
    n_records: tuple = (1, 5)
    n_aliases: tuple = (0, 3)
    n_protocols: tuple = (1, 3)
    n_steps: tuple = (1, 5)
    n_files: tuple = (1, 3)
    w_prim: float = 5
    w_named: float = 4
    w_opt: float = 2
    w_union: float = 2
    w_vec: float = 2
    w_arr: float = 1.5
    w_map: float = 1.5
    generics: bool = True
    imports: int = 0
    time_types: bool = True
    complex_types: bool = True
    arrays_of_records: bool = False
    p_stream: float = 0.45
    p_expanded: float = 0.3
    use_imported_types: bool = True
    no_bool_vectors: bool = False   # yardl's C++ ReadVector does not compile for std::vector<bool> (C08, not claimed)
    p_pod_record: float = 0.3       # records made of fixed-size fields only (whole-record copy paths, struct padding)
    p_optional_alias: float = 0.3   # aliases whose target can be absent (T?, nullable unions)
    time_keys: bool = False         # date/datetime map keys (Python only: C++ has no std::hash for them, C08)
    odd_namespaces: bool = False    # imported namespaces named like modules every generated Python package has (Types, Binary, ...):
                                    # yardl accepts them, the Python output is then not importable (C08) - for checks that run the tool only

    @staticmethod
    def swarm(rng: Rng) -> "GenConfig":
        c = GenConfig()
        c.max_depth = rng.randint(1, 4)
        for w in ("w_opt", "w_union", "w_vec", "w_arr", "w_map"):
            if rng.chance(0.25):
                setattr(c, w, 0.0)
            elif rng.chance(0.25):
                setattr(c, w, getattr(c, w) * 3)
        c.generics = rng.chance(0.6)
        c.imports = rng.weighted([(0, 5), (1, 3), (2, 1)])
        c.time_types = rng.chance(0.7)
        c.complex_types = rng.chance(0.7)
        c.p_stream = rng.choice([0.2, 0.45, 0.8])
        c.p_expanded = rng.choice([0.0, 0.3, 0.8])
        c.use_imported_types = rng.chance(0.7)
        k = rng.fork("shapes")          # forked: the knobs above keep the values they had before these were added
        c.arrays_of_records = k.fork("recarr").chance(0.5)
        c.p_pod_record = k.choice([0.0, 0.3, 0.6])
        c.p_optional_alias = k.choice([0.0, 0.3, 0.6])
        return c


class TagRegistry:
    """One tag per distinct case type, one case order per tag set (yardl rejects the same tag set
    used with different types)."""

    def __init__(self):
        self.tag_of = {}
        self.used = set()
        self.sets = {}

    def tag(self, t: Type) -> str:
        if t in self.tag_of:
            return self.tag_of[t]
        base = _tag_base(t)
        base = base[0].lower() + base[1:]
        base = base[:48]
        cand, i = base, 1
        while cand in self.used:
            i += 1
            cand = "%s%d" % (base, i)
        self.used.add(cand)
        self.tag_of[t] = cand
        return cand


def _tag_base(t: Type) -> str:
    if isinstance(t, Prim):
        return t.name
    if isinstance(t, Named):
        return t.name + "".join(_tag_base(a).capitalize() for a in t.args)
    if isinstance(t, Opt):
        return _tag_base(t.inner) + "Opt"
    if isinstance(t, Vec):
        return _tag_base(t.inner) + "Vec" + (str(t.length) if t.length else "")
    if isinstance(t, Arr):
        return _tag_base(t.inner) + "Arr"
    if isinstance(t, Map):
        return _tag_base(t.key) + "To" + _tag_base(t.value).capitalize()
    return "x"


class PackageGen:
    def __init__(self, rng: Rng, cfg: GenConfig, namespace: str, dirname: str, imports=()):
        self.rng = rng
        self.cfg = cfg
        self.pkg = Package(namespace=namespace, dirname=dirname, files={}, imports=list(imports),
                           expanded_syntax=cfg.p_expanded, render_seed=rng.next() | 1)
        self.tags = TagRegistry()
        self.names = set()
        self.counter = 0
        # pool entries: (Named type (closed), kind, props)
        self.pool = []          # closed named types usable anywhere
        self.generic_defs = []  # (def, kind)
        self.pod_pool = []      # records made of fixed-size fields only
        self.generic_pods = []  # generic records that are such records when instantiated with numbers
        for imp in (imports if cfg.use_imported_types else ()):
            for d in imp.defs():
                if isinstance(d, Protocol):
                    continue
                if getattr(d, "params", ()):
                    continue
                self.pool.append(Named(d.name, (), imp.namespace))
        self.env = None

    # -- names --
    def type_name(self, prefix: str) -> str:
        while True:
            self.counter += 1
            n = prefix + self.rng.choice(WORDS).capitalize() + (str(self.counter) if self.rng.chance(0.5) else "")
            if n not in self.names and n not in ALL_PRIMS:
                self.names.add(n)
                return n

    def member_names(self, n: int) -> list:
        out = []
        pool = list(WORDS)
        self.rng.shuffle(pool)
        for i in range(n):
            w = pool[i % len(pool)]
            if i >= len(pool) or self.rng.chance(0.3):
                w += str(i + 1)
            out.append(w)
        return out

    # -- structural queries --
    def _env(self) -> Env:
        return Env(self.pkg)

    def structural(self, t: Type, params=()):
        """Resolved shape used for distinctness / restriction checks; type parameters stay opaque."""
        if isinstance(t, TParam):
            return t
        try:
            return self._env().resolve(qualify(t, self.pkg.namespace))
        except KeyError:
            return t

    def is_optional_like(self, t: Type) -> bool:
        r = self.structural(t)
        return isinstance(r, Opt) or (isinstance(r, Union)) or isinstance(r, TParam)

    def is_bool(self, t: Type) -> bool:
        r = self.structural(t)
        return isinstance(r, Prim) and r.name == "bool"

    def bad_case_type(self, t: Type) -> bool:
        """yardl rejects (in the expanded syntax) an optional/union case that is a vector, array or
        map whose element is itself an optional/union; never generate that shape."""
        if self.is_optional_like(t):
            return True
        r = self.structural(t)
        if isinstance(r, (Vec, Arr)):
            return self.is_optional_like(r.inner)
        if isinstance(r, Map):
            return self.is_optional_like(r.value)
        return False

    def canon(self, t: Type):
        """Canonical hashable form for union-case distinctness (aliases resolved, size==uint64)."""
        r = self.structural(t)
        if isinstance(r, tuple):
            if r[0] == "record":
                return ("record", r[3], r[1].name, tuple(sorted((k, self.canon(v)) for k, v in r[2].items())))
            return ("enum", r[2], r[1].name)
        if isinstance(r, Prim):
            return ("prim", "uint64" if r.name == "size" else r.name)
        if isinstance(r, Opt):
            return ("opt", self.canon(r.inner))
        if isinstance(r, Vec):
            return ("vec", self.canon(r.inner), r.length)
        if isinstance(r, Arr):
            d = r.dims if not isinstance(r.dims, tuple) else tuple(l for _, l in r.dims)
            return ("arr", self.canon(r.inner), d)
        if isinstance(r, Map):
            return ("map", self.canon(r.key), self.canon(r.value))
        if isinstance(r, Union):
            return ("union", r.nullable, tuple(self.canon(c) for _, c in r.cases))
        return ("other", repr(r))

    # -- type generation --
    def gen_prim(self, numeric_only=False, key=False) -> Prim:
        r = self.rng
        if key:
            if self.cfg.time_keys and self.cfg.time_types and r.chance(0.2):
                return Prim(r.choice(["date", "datetime"]))
            if r.fork("oddkey").chance(0.15):
                return Prim(r.fork("oddkey2").choice(["bool", "float64", "float32", "int8", "uint16", "uint32"]))
            return Prim(r.choice(["string", "string", "int32", "uint8", "int64", "uint64", "int16", "size"]))
        if numeric_only:
            opts = INT_PRIMS + FLOAT_PRIMS + ["bool"]
            if self.cfg.complex_types:
                opts = opts + COMPLEX_PRIMS
            return Prim(r.choice(opts))
        opts = ["bool", "string", "string", "int32", "int32", "float32", "float64"] + INT_PRIMS
        if self.cfg.complex_types:
            opts += COMPLEX_PRIMS
        if self.cfg.time_types:
            opts += TIME_PRIMS
        return Prim(r.choice(opts))

    def gen_array_elem(self) -> Type:
        r = self.rng
        enums = [t for t in self.pool if isinstance(self.structural(t), tuple) and self.structural(t)[0] == "enum" and t.ns is None]
        if enums and r.chance(0.2):
            return r.choice(enums)
        if self.cfg.arrays_of_records and r.fork("objarr", len(self.pool)).chance(0.2):
            # elements that NumPy holds as sub-arrays (fixed vectors / fixed arrays of numbers) or as objects (strings, optionals,
            # dynamic vectors)
            k = r.fork("objarr2", len(self.pool))
            num = Prim(k.choice(["float32", "float64", "uint8", "int16", "int32"]))
            return k.choice([Vec(num, k.randint(1, 3)), Arr(num, ((None, 2), (None, 2))), Prim("string"), Opt(num), Vec(num)])
        if self.cfg.arrays_of_records and self.generic_pods and r.fork("grecarr", len(self.pool)).chance(0.3):
            k = r.fork("grecarr2", len(self.pool))
            d = k.choice(self.generic_pods)
            nums = ["float32", "float64", "uint8", "int8", "complexfloat32"] if self.cfg.complex_types else ["float32", "float64", "uint8", "int8"]
            return Named(d.name, tuple(Prim(k.choice(nums)) for _ in d.params))      # an instantiation of a generic record as array element
        if self.cfg.arrays_of_records and self.pod_pool and r.fork("recarr", len(self.pool)).chance(0.35):
            return r.fork("recarr2", len(self.pool)).choice(self.pod_pool)        # arrays of records (NumPy structured dtypes; C++ arrays of structs)
        if self.cfg.time_types and r.fork("timearr", len(self.pool)).chance(0.15):
            return Prim(r.fork("timearr2", len(self.pool)).choice(TIME_PRIMS))      # arrays of dates / times / datetimes
        return self.gen_prim(numeric_only=True)

    def gen_type(self, depth: int, params=(), allow_param=True) -> Type:
        r, c = self.rng, self.cfg
        opts = [("prim", c.w_prim)]
        if self.pool:
            opts.append(("named", c.w_named))
        if params and allow_param:
            opts.append(("param", 4))
        if depth > 0:
            opts += [("opt", c.w_opt), ("union", c.w_union), ("vec", c.w_vec), ("arr", c.w_arr), ("map", c.w_map)]
        kind = r.weighted(opts)
        if kind == "prim":
            return self.gen_prim()
        if kind == "named":
            return self.gen_named(depth, params)
        if kind == "param":
            return TParam(r.choice(params))
        if kind == "opt":
            for _ in range(8):
                inner = self.gen_type(depth - 1, params, allow_param)
                if not self.bad_case_type(inner):
                    return Opt(inner)
            return Opt(self.gen_prim())
        if kind == "union":
            return self.gen_union(depth, params)
        if kind == "vec":
            inner = self.gen_type(depth - 1, params, allow_param)
            if self.cfg.no_bool_vectors and self.is_bool(inner):
                inner = Prim("uint8")
            return Vec(inner, r.randint(1, 4) if r.chance(0.3) else None)
        if kind == "arr":
            return Arr(self.gen_array_elem(), self.gen_dims())
        if kind == "map":
            return Map(self.gen_prim(key=True), self.gen_type(depth - 1, params, allow_param))
        raise AssertionError(kind)

    def gen_dims(self):
        r = self.rng
        k = r.weighted([("dyn", 2), ("ndims", 3), ("fixed", 3), ("named", 1), ("namedfixed", 1)])
        n = r.randint(1, 3)
        if k == "dyn":
            return None
        if k == "ndims":
            return n
        dn = ["x", "y", "z"]
        if k == "fixed":
            return tuple((None, r.randint(1, 4)) for _ in range(n))
        if k == "named":
            return tuple((dn[i], None) for i in range(n))
        return tuple((dn[i], r.randint(1, 4)) for i in range(n))

    def gen_named(self, depth: int, params=()) -> Type:
        r = self.rng
        if self.generic_defs and self.cfg.generics and r.chance(0.35):
            d = r.choice(self.generic_defs)
            args = []
            in_union = getattr(d, "_params_in_union", False)
            for k, _ in enumerate(d.params):
                for _ in range(8):
                    a = self.gen_type(max(0, depth - 1), params, allow_param=False)
                    if self.arg_ok(d, a) and not (in_union and (self.bad_case_type(a) or self.canon(a) in [self.canon(x) for x in args])):
                        break
                else:
                    a = [Prim("int32"), Prim("string"), Prim("float64")][k % 3]
                args.append(a)
            return Named(d.name, tuple(args))
        return r.choice(self.pool)

    def arg_ok(self, d, a: Type) -> bool:
        # arguments land in T, T*, T?, K->T positions: T? requires a non-optional argument
        if getattr(d, "_param_in_opt", False) and self.bad_case_type(a):
            return False
        if self.cfg.no_bool_vectors and getattr(d, "_param_in_vec", False) and self.is_bool(a):
            return False
        return True

    def gen_union(self, depth: int, params=()) -> Type:
        r = self.rng
        n = r.randint(2, 4)
        cases, seen = [], set()
        for _ in range(n * 4):
            if len(cases) >= n:
                break
            t = self.gen_type(depth - 1, params, allow_param=False)
            if self.bad_case_type(t):
                continue
            cn = self.canon(t)
            if cn in seen:
                continue
            seen.add(cn)
            cases.append(t)
        if len(cases) < 2:
            cases = [Prim("int32"), Prim("string")]
        nullable = r.chance(0.35)
        simple = all(isinstance(t, Prim) or (isinstance(t, Named) and not t.args and t.ns is None) for t in cases)
        if simple and r.chance(0.7):
            tagged = tuple(((t.name), t) for t in cases)
            return Union(tagged, nullable, explicit=False)
        tagged = tuple((self.tags.tag(t), t) for t in cases)
        key = frozenset(tag for tag, _ in tagged)
        if key in self.tags.sets:
            return self.tags.sets[key]
        u = Union(tagged, nullable, explicit=True)
        self.tags.sets[key] = u
        return u

    # -- definitions --
    def add(self, d, fileidx: int):
        fn = self.filenames[fileidx % len(self.filenames)]
        self.pkg.files[fn].append(d)

    def generate(self) -> Package:
        r, c = self.rng, self.cfg
        nfiles = r.randint(*c.n_files)
        self.filenames = ["%s.yml" % w for w in r.sample(["model", "types", "protocols", "common", "extra"], nfiles)]
        if r.chance(0.2):
            self.filenames[0] = self.filenames[0].replace(".yml", ".yaml")
        for fn in self.filenames:
            self.pkg.files[fn] = []

        for _ in range(r.randint(*c.n_enums)):
            self.gen_enum()
        n_rec = r.randint(*c.n_records)
        n_alias = r.randint(*c.n_aliases)
        order = ["rec"] * n_rec + ["alias"] * n_alias
        r.shuffle(order)
        for k in order:
            if k == "rec":
                self.gen_record()
            else:
                self.gen_alias()
        for _ in range(r.randint(*c.n_protocols)):
            self.gen_protocol()
        return self.pkg

    def _fresh_symbol(self, taken, rng):
        for _ in range(50):
            n = self.member_names(1)[0]
            if n not in taken:
                return n
        return "sym%d" % (rng.next() % 100000)

    def gen_enum(self):
        r = self.rng
        flags = r.chance(0.4)
        name = self.type_name("Flg" if flags else "Enm")
        base = r.choice([None, None] + INT_PRIMS)
        lo, hi = INT_RANGE[base or "int32"]
        n = r.randint(1, 5)
        syms = self.member_names(n)
        explicit = r.chance(0.6) or True
        vals = []
        if flags:
            bits = r.sample(range(0, min(7, hi.bit_length())), min(n, min(7, hi.bit_length())))
            vals = [1 << b for b in sorted(bits)]
            syms = syms[:len(vals)]
            if r.chance(0.2):
                vals[0] = 0 if 0 not in vals else vals[0]
            k = r.fork("multibit", name)
            free = [b for b in range(0, min(7, hi.bit_length())) if not any(v >> b & 1 for v in vals)]
            if len(vals) >= 2 and k.chance(0.3):
                # a composite symbol: the union of two others (`readWrite: 3`)
                a, b = k.sample([v for v in vals if v], 2) if len([v for v in vals if v]) >= 2 else (vals[-1], vals[-1])
                if (a | b) not in vals:
                    vals.append(a | b)
                    syms = syms + [self._fresh_symbol(syms, k)]
            if len(free) >= 2 and k.chance(0.3):
                # a symbol of several bits none of which has a symbol of its own
                two = k.sample(free, 2)
                vals.append((1 << two[0]) | (1 << two[1]))
                syms = syms + [self._fresh_symbol(syms, k)]
        else:
            seen = set()
            while len(vals) < n:
                v = r.choice([0, 1, 2, 3, 5, 10, 100, -1, -5, hi, lo, r.randint(max(lo, -1000), min(hi, 1000))])
                if lo <= v <= hi and v not in seen:
                    seen.add(v)
                    vals.append(v)
        d = Enum(name, base, list(zip(syms, vals)), flags=flags, explicit_values=True)
        if base and r.fork("basealias", name).chance(0.3):
            # the base type named through an alias (`ChannelId: uint16`, `base: ChannelId`)
            an = self.type_name("Als")
            self.add(Alias(an, (), Prim(base)), r.fork("basealias2", name).randrange(8))
            self.pool.append(Named(an))
            d.base_alias = an
        self.add(d, r.randrange(8))
        self.pool.append(Named(name))

    POD_PRIMS = ["float32", "float64", "int8", "uint8", "bool", "float32", "float64", "uint8"]

    def gen_pod_record(self):
        """A record of fixed-size fields only, of mixed widths in any order (1, 4, 8, 16 bytes; fixed vectors and
        earlier records of this kind nested): what the back ends may copy as a block, padding and all."""
        r, c = self.rng, self.cfg
        name = self.type_name("Rec")
        prims = list(self.POD_PRIMS) + (COMPLEX_PRIMS if c.complex_types else [])
        fields = []
        for fname in self.member_names(r.randint(1, 4)):
            k = r.weighted([("prim", 6), ("fixedvec", 2), ("pod", 2 if self.pod_pool else 0)])
            if k == "prim":
                t = Prim(r.choice(prims))
            elif k == "fixedvec":
                t = Vec(Prim(r.choice([p for p in prims if p != "bool"])), r.randint(1, 3))
            else:
                t = r.choice(self.pod_pool)
            fields.append((fname, t))
        d = Record(name, (), fields)
        d._param_in_opt = d._param_in_vec = False
        self.add(d, r.randrange(8))
        self.pool.append(Named(name))
        self.pod_pool.append(Named(name))

    def gen_generic_pod_record(self):
        """`Pair<T, U>: {first: T, second: U, ...}`: a generic record that is a fixed-size-field record whenever its
        arguments are numbers - each instantiation has its own layout."""
        r = self.rng
        name = self.type_name("Rec")
        params = ("T", "U") if r.chance(0.6) else ("T",)
        names = self.member_names(len(params) + 1)
        fields = [(names[i], TParam(p)) for i, p in enumerate(params)] + [(names[-1], Prim(r.choice(["uint8", "float32", "float64"])))]
        r.shuffle(fields)
        d = Record(name, params, fields)
        d._param_in_opt = d._param_in_vec = False
        d._pod_generic = True
        self.add(d, r.randrange(8))
        self.generic_defs.append(d)
        self.generic_pods.append(d)

    def gen_record(self):
        r, c = self.rng, self.cfg
        if c.generics and c.arrays_of_records and not self.generic_pods and r.fork("gpod", len(self.pool)).chance(0.4):
            return self.gen_generic_pod_record()
        if r.fork("pod", len(self.pool)).chance(c.p_pod_record):
            return self.gen_pod_record()
        generic = c.generics and r.chance(0.25)
        params = tuple(r.sample(["T", "U", "V"], r.randint(1, 2))) if generic else ()
        name = self.type_name("Rec")
        nf = max(r.randint(1, 5), len(params))
        fields = []
        names = self.member_names(nf)
        used_params = set()
        param_in_opt = False
        param_in_vec = False
        for i in range(nf):
            if generic and i < len(params):
                # every type parameter must be used
                p = params[i]
                shape = r.weighted([("plain", 4), ("vec", 2), ("opt", 1), ("map", 1)])
                t = TParam(p)
                if shape == "vec":
                    t = Vec(t)
                    param_in_vec = True
                elif shape == "opt":
                    t = Opt(t)
                    param_in_opt = True
                elif shape == "map":
                    t = Map(Prim("string"), t)
                used_params.add(p)
            else:
                t = self.gen_type(c.max_depth, (), allow_param=False)
            fields.append((names[i], t))
        d = Record(name, params, fields)
        d._param_in_opt = param_in_opt
        d._param_in_vec = param_in_vec
        self.add(d, r.randrange(8))
        if generic:
            self.generic_defs.append(d)
        else:
            self.pool.append(Named(name))

    def gen_alias(self):
        r, c = self.rng, self.cfg
        generic = c.generics and r.chance(0.2)
        name = self.type_name("Als")
        if generic and r.fork("union2", name).chance(0.3):
            # a generic union over two type parameters (`Result<T, E>: [T, E]`), now and then with a null case
            k = r.fork("union2b", name)
            u = Union((("t" + name, TParam("T")), ("u" + name, TParam("U"))), nullable=k.chance(0.3), explicit=True)
            d = Alias(name, ("T", "U"), u)
            d._param_in_opt = d._param_in_vec = False
            d._params_in_union = True
            self.add(d, r.randrange(8))
            self.generic_defs.append(d)
            return
        if generic:
            p = r.choice(["T", "U"])
            shape = r.weighted([("vec", 3), ("map", 2), ("plain", 1), ("opt", 1)])
            t = TParam(p)
            if shape == "vec":
                t = Vec(t, r.randint(1, 3) if r.chance(0.3) else None)
            elif shape == "map":
                t = Map(Prim("string"), t)
            elif shape == "opt":
                t = Opt(t)
            d = Alias(name, (p,), t)
            d._param_in_opt = shape == "opt"
            d._param_in_vec = shape == "vec"
            self.add(d, r.randrange(8))
            self.generic_defs.append(d)
            return
        t = self.gen_type(c.max_depth, (), allow_param=False)
        if r.fork("optalias", name).chance(c.p_optional_alias) and not self.bad_case_type(t) and not isinstance(t, Union):
            # a named type that can be absent: `Label: string?`, or a nullable union
            k = r.fork("optalias2", name)
            t = Opt(t) if k.chance(0.7) else Union((("int32", Prim("int32")), ("string", Prim("string"))), nullable=True)
        d = Alias(name, (), t)
        self.add(d, r.randrange(8))
        self.pool.append(Named(name))

    def gen_protocol(self):
        r, c = self.rng, self.cfg
        name = self.type_name("Proto")
        n = r.randint(*c.n_steps)
        names = self.member_names(n)
        steps = []
        for i in range(n):
            stream = r.chance(c.p_stream)
            t = self.gen_type(c.max_depth, (), allow_param=False)
            if stream and c.no_bool_vectors and self.is_bool(t):
                t = Prim("uint8")        # batches of a stream are std::vector<T> in C++
            steps.append((names[i], t, stream))
        self.add(Protocol(name, steps), r.randrange(8))


NAMESPACES = ["Sketch", "Basic", "Shared", "Imaging", "Core", "Units"]


TARGET_FLAGS = {"cpp": ["generateHDF5", "generateNDJson", "generateCMakeLists"], "python": ["generateNDJson"], "json": [], "matlab": []}


def randomize_target_options(pkg: Package, rng: Rng, p: float = 0.5):
    """Documented boolean options of the enabled targets, each spelled out with a seeded value with probability p
    (absent = the default, which is true for all of them)."""
    for t in sorted(pkg.targets):
        for flag in TARGET_FLAGS.get(t, []):
            if rng.chance(p):
                pkg.targets[t] = dict(pkg.targets[t], **{flag: rng.chance(0.5)})


def gen_package(seed: int, cfg: Optional[GenConfig] = None, targets=("cpp", "python", "json", "matlab")) -> Package:
    """A valid package (possibly with imported packages) decided entirely by seed."""
    rng = derive(seed, "package")
    cfg = cfg or GenConfig.swarm(rng.fork("cfg"))
    imports = []
    ns = list(NAMESPACES[1:])
    rng.shuffle(ns)
    if cfg.odd_namespaces and cfg.imports and rng.fork("oddns").chance(0.25):
        ns[0] = rng.fork("oddns2").choice(["Types", "Binary", "Protocols", "Ndjson", "YardlTypes"])
    for i in range(cfg.imports):
        icfg = replace(cfg, imports=0, n_protocols=(0, 1), n_records=(1, 3))
        g = PackageGen(rng.fork("import", i), icfg, ns[i], "imp_" + ns[i].lower(), imports=list(imports) if rng.chance(0.4) else [])
        imports.append(g.generate())
    g = PackageGen(rng.fork("main"), cfg, "Sketch", "pkg", imports=imports)
    pkg = g.generate()
    out = {}
    for t in targets:
        out[t] = {TARGET_KEYS[t]: "../out/" + t}
    pkg.targets = out
    # documentation comments on some definitions (they travel into the generated code as comments, and the tool strips them
    # from the schema text it embeds - which is a pass over the model of its own)
    cr = rng.fork("comments")
    if cr.chance(0.5):
        for q in pkg.all_packages():
            for d in q.defs():
                if not d.comment and cr.fork(q.namespace, d.name).chance(0.3):
                    d.comment = cr.fork("text", d.name).choice(["as delivered by the instrument", "see the acquisition notes", "units: SI", "do not reorder", "kept for older readers"])
    return pkg


CLUTTER = [(".gitignore", "*.pyc\n__pycache__/\nbuild/\n"), (".gitkeep", ""), (".editorconfig", "root = true\n[*]\nindent_size = 2\n"), (".DS_Store", "\x00\x00\x00\x01Bud1"),
           ("README.md", "# models\n"), ("notes.txt", "todo\n"), (".vscode/settings.json", "{}\n"), ("docs/overview.md", "overview\n"), ("LICENSE", "MIT\n")]


def add_clutter(files: dict, rng: Rng, p_dir=0.45) -> list:
    """What real package directories also hold besides model files: hidden files, documentation, editor settings
    (nothing named *.yml / *.yaml: yardl reads every such file below a package directory as a model file).
    Adds them in place to a rendered tree {abs path: text}; returns the paths added."""
    added = []
    for d in sorted({p.rsplit("/", 1)[0] for p in files if p.endswith("/_package.yml")}):
        r = rng.fork("clutter", d)
        if not r.chance(p_dir):
            continue
        for name, text in r.sample(CLUTTER, r.randint(1, 3)):
            q = d + "/" + name
            if q not in files:
                files[q] = text
                added.append(q)
    return added

