"""Reference codec: an independent implementation of yardl's compact binary and NDJSON formats,
written from docs/reference/binary.md and docs/reference/ndjson.md only.  It shares no code with
yardl.  Operates on the neutral value form of gen/values.py and the AST of gen/model.py.

The schema text in stream headers is not constructed here (that is property C04, not claimed):
callers pass the schema string the generated code embeds.
"""
from __future__ import annotations

import json, math, struct, datetime

from . import model as M
from .model import Prim, Opt, Union, Vec, Arr, Map, INT_RANGE

MAGIC = b"yardl"          # docs/reference/binary.md: 0x79 0x61 0x72 0x64 0x6c
BINARY_VERSION = 1        # "currently 1"
NDJSON_VERSION = 1        # docs/reference/ndjson.md sample header


class Truncated(Exception):
    """Input ended inside a value (offset = position where more bytes were needed)."""

    def __init__(self, pos):
        super().__init__("truncated at %d" % pos)
        self.pos = pos


class Malformed(Exception):
    pass


# ----------------------------------------------------------------------------------------
# Primitives
# ----------------------------------------------------------------------------------------

def put_uvarint(out: bytearray, v: int):
    if v < 0:
        raise ValueError("negative uvarint")
    while True:
        if v < 0x80:
            out.append(v)
            return
        out.append((v & 0x7F) | 0x80)
        v >>= 7


def zigzag(v: int) -> int:
    # binary.md's table: 0->0, -1->1, 1->2, -2->3, 2->4
    return (v << 1) if v >= 0 else ((-v) << 1) - 1


def unzigzag(u: int) -> int:
    return (u >> 1) if (u & 1) == 0 else -((u + 1) >> 1)


def get_uvarint(buf, pos):
    shift, v = 0, 0
    while True:
        if pos >= len(buf):
            raise Truncated(pos)
        b = buf[pos]
        pos += 1
        v |= (b & 0x7F) << shift
        if b < 0x80:
            return v, pos
        shift += 7
        if shift > 70:
            raise Malformed("varint too long")


SIGNED = {"int8", "int16", "int32", "int64"}
UNSIGNED = {"uint8", "uint16", "uint32", "uint64", "size"}


class Codec:
    """Follows docs/reference/binary.md (as corrected by the repository's commit 01d5a0f: int8 and uint8,
    and enums/flags with those bases, are one raw byte; the wider integers are (zig-zag) varints).
    doc_strict=True selects the reading of the reference as it was before that correction (all
    integers varints); it is kept only so that the archived finding can be replayed."""

    def __init__(self, env: M.Env, doc_strict: bool = False):
        self.env = env
        self.doc_strict = doc_strict

    def _enc_int(self, name: str, v: int, out: bytearray):
        if not self.doc_strict and name in ("int8", "uint8"):
            out.append(v & 0xFF)
        elif name in SIGNED:
            put_uvarint(out, zigzag(v))
        else:
            put_uvarint(out, v)

    def _dec_int(self, name: str, buf, pos):
        if not self.doc_strict and name in ("int8", "uint8"):
            if pos >= len(buf):
                raise Truncated(pos)
            b = buf[pos]
            return (b - 256 if (name == "int8" and b >= 128) else b), pos + 1
        u, pos = get_uvarint(buf, pos)
        return (unzigzag(u) if name in SIGNED else u), pos

    # ------------------------------------------------------------------ binary encode
    def enc(self, t, v, out: bytearray):
        res = self.env.resolve(t)
        if isinstance(res, tuple):
            if res[0] == "record":
                for n, ft in self.env.record_fields(res):
                    self.enc(ft, v[n], out)
                return
            base = res[1].base or "int32"      # "signed if the underlying type is signed, which is the default"
            self._enc_int(base, v, out)
            return
        t = res
        if isinstance(t, Prim):
            n = t.name
            if n == "bool":
                out.append(1 if v else 0)
            elif n in UNSIGNED or n in SIGNED:
                self._enc_int(n, v, out)
            elif n in ("date", "time", "datetime"):
                put_uvarint(out, zigzag(v))
            elif n == "float32":
                out += struct.pack("<f", v)
            elif n == "float64":
                out += struct.pack("<d", v)
            elif n == "complexfloat32":
                out += struct.pack("<ff", v[0], v[1])
            elif n == "complexfloat64":
                out += struct.pack("<dd", v[0], v[1])
            elif n == "string":
                b = v.encode("utf-8")
                put_uvarint(out, len(b))
                out += b
            else:
                raise TypeError(n)
            return
        if isinstance(t, Opt):
            if v is None:
                out.append(0)
            else:
                out.append(1)
                self.enc(t.inner, v, out)
            return
        if isinstance(t, Union):
            off = 1 if t.nullable else 0
            if v is None:
                put_uvarint(out, 0)
            else:
                put_uvarint(out, v[1] + off)
                self.enc(t.cases[v[1]][1], v[2], out)
            return
        if isinstance(t, Vec):
            if t.length is None:
                put_uvarint(out, len(v))
            elif len(v) != t.length:
                raise ValueError("fixed vector length")
            for x in v:
                self.enc(t.inner, x, out)
            return
        if isinstance(t, Arr):
            _, shape, flat = v
            if t.dims is None:
                put_uvarint(out, len(shape))
                for s in shape:
                    put_uvarint(out, s)
            elif isinstance(t.dims, int) or not all(l is not None for _, l in t.dims):
                for s in shape:
                    put_uvarint(out, s)
            for x in flat:
                self.enc(t.inner, x, out)
            return
        if isinstance(t, Map):
            put_uvarint(out, len(v))
            for k, x in v:
                self.enc(t.key, k, out)
                self.enc(t.value, x, out)
            return
        raise TypeError(t)

    # ------------------------------------------------------------------ binary decode
    def dec(self, t, buf, pos):
        res = self.env.resolve(t)
        if isinstance(res, tuple):
            if res[0] == "record":
                out = {}
                for n, ft in self.env.record_fields(res):
                    out[n], pos = self.dec(ft, buf, pos)
                return out, pos
            base = res[1].base or "int32"
            return self._dec_int(base, buf, pos)
        t = res
        if isinstance(t, Prim):
            n = t.name
            if n == "bool":
                if pos >= len(buf):
                    raise Truncated(pos)
                return buf[pos] != 0, pos + 1
            if n in UNSIGNED or n in SIGNED:
                return self._dec_int(n, buf, pos)
            if n in ("date", "time", "datetime"):
                u, pos = get_uvarint(buf, pos)
                return unzigzag(u), pos
            fixed = {"float32": ("<f", 4), "float64": ("<d", 8), "complexfloat32": ("<ff", 8), "complexfloat64": ("<dd", 16)}
            if n in fixed:
                fmt, sz = fixed[n]
                if pos + sz > len(buf):
                    raise Truncated(len(buf))
                vals = struct.unpack_from(fmt, buf, pos)
                return (vals[0] if len(vals) == 1 else (vals[0], vals[1])), pos + sz
            if n == "string":
                ln, pos = get_uvarint(buf, pos)
                if pos + ln > len(buf):
                    raise Truncated(len(buf))
                try:
                    return bytes(buf[pos:pos + ln]).decode("utf-8"), pos + ln
                except UnicodeDecodeError as e:
                    raise Malformed("invalid utf-8: %s" % e)
            raise TypeError(n)
        if isinstance(t, Opt):
            if pos >= len(buf):
                raise Truncated(pos)
            tag = buf[pos]
            pos += 1
            if tag == 0:
                return None, pos
            if tag != 1:
                raise Malformed("optional tag %d" % tag)
            return self.dec(t.inner, buf, pos)
        if isinstance(t, Union):
            idx, pos = get_uvarint(buf, pos)
            off = 1 if t.nullable else 0
            if t.nullable and idx == 0:
                return None, pos
            idx -= off
            if idx < 0 or idx >= len(t.cases):
                raise Malformed("union index %d" % (idx + off))
            v, pos = self.dec(t.cases[idx][1], buf, pos)
            return ("u", idx, v), pos
        if isinstance(t, Vec):
            if t.length is None:
                n, pos = get_uvarint(buf, pos)
            else:
                n = t.length
            if n > len(buf) - pos + 16 and n > 1 << 20:
                raise Truncated(len(buf))
            out = []
            for _ in range(n):
                v, pos = self.dec(t.inner, buf, pos)
                out.append(v)
            return out, pos
        if isinstance(t, Arr):
            if t.dims is None:
                nd, pos = get_uvarint(buf, pos)
                if nd > 64:
                    raise Malformed("array rank %d" % nd)
                shape = []
                for _ in range(nd):
                    s, pos = get_uvarint(buf, pos)
                    shape.append(s)
            elif isinstance(t.dims, int) or not all(l is not None for _, l in t.dims):
                nd = t.dims if isinstance(t.dims, int) else len(t.dims)
                shape = []
                for _ in range(nd):
                    s, pos = get_uvarint(buf, pos)
                    shape.append(s)
            else:
                shape = [l for _, l in t.dims]
            n = 1
            for s in shape:
                n *= s
            if n > (len(buf) - pos) * 8 + 16 and n > 1 << 20:
                raise Truncated(len(buf))
            flat = []
            for _ in range(n):
                v, pos = self.dec(t.inner, buf, pos)
                flat.append(v)
            return ("a", tuple(shape), flat), pos
        if isinstance(t, Map):
            n, pos = get_uvarint(buf, pos)
            if n > len(buf) - pos + 16 and n > 1 << 20:
                raise Truncated(len(buf))
            out = []
            for _ in range(n):
                k, pos = self.dec(t.key, buf, pos)
                v, pos = self.dec(t.value, buf, pos)
                out.append((k, v))
            return out, pos
        raise TypeError(t)

    # ------------------------------------------------------------------ whole streams
    def encode_stream(self, proto: M.Protocol, ns: str, schema: str, values: list, partitions=None) -> bytes:
        """values[i]: value of step i (list of items for stream steps).  partitions[i]: list of block
        sizes for stream step i (default: one block)."""
        out = bytearray()
        out += MAGIC
        out += struct.pack("<i", BINARY_VERSION)
        b = schema.encode("utf-8")
        put_uvarint(out, len(b))
        out += b
        self.marks = [len(out)]   # byte offsets of value boundaries (for cut-position classes)
        self.block_ends = []      # (byte offset where a block of a stream ends and another block follows, step index, items of the step so far)
        for i, (name, t, stream) in enumerate(proto.steps):
            qt = M.qualify(t, ns)
            if not stream:
                self.enc(qt, values[i], out)
                self.marks.append(len(out))
                continue
            items = values[i]
            part = (partitions or {}).get(i)
            if part is None:
                part = [len(items)] if items else []
            assert sum(part) == len(items) and all(p > 0 for p in part)
            k = 0
            for bi, p in enumerate(part):
                put_uvarint(out, p)
                for _ in range(p):
                    self.enc(qt, items[k], out)
                    k += 1
                    self.marks.append(len(out))
                if bi + 1 < len(part):
                    self.block_ends.append((len(out), i, k))
            put_uvarint(out, 0)       # "The last block will have length 0"
            self.marks.append(len(out))
        return bytes(out)

    def decode_stream(self, proto: M.Protocol, ns: str, buf: bytes, expected_schema=None):
        """Returns (values, partitions, schema).  Raises Truncated / Malformed.  Trailing bytes are Malformed."""
        if len(buf) < 5:
            if MAGIC.startswith(bytes(buf)):
                raise Truncated(len(buf))
            raise Malformed("bad magic")
        if bytes(buf[:5]) != MAGIC:
            raise Malformed("bad magic")
        if len(buf) < 9:
            raise Truncated(len(buf))
        (ver,) = struct.unpack_from("<i", buf, 5)
        if ver != BINARY_VERSION:
            raise Malformed("version %d" % ver)
        ln, pos = get_uvarint(buf, 9)
        if pos + ln > len(buf):
            raise Truncated(len(buf))
        try:
            schema = bytes(buf[pos:pos + ln]).decode("utf-8")
        except UnicodeDecodeError:
            raise Malformed("schema not utf-8")
        pos += ln
        if expected_schema is not None and schema != expected_schema:
            raise Malformed("schema mismatch")
        values, parts = [], {}
        for i, (name, t, stream) in enumerate(proto.steps):
            qt = M.qualify(t, ns)
            if not stream:
                v, pos = self.dec(qt, buf, pos)
                values.append(v)
                continue
            items, part = [], []
            while True:
                n, pos = get_uvarint(buf, pos)
                if n == 0:
                    break
                part.append(n)
                for _ in range(n):
                    v, pos = self.dec(qt, buf, pos)
                    items.append(v)
            values.append(items)
            parts[i] = part
        if pos != len(buf):
            raise Malformed("trailing bytes: %d" % (len(buf) - pos))
        return values, parts, schema

    def decode_prefix(self, proto: M.Protocol, ns: str, buf: bytes):
        """Decode as much as possible of a possibly truncated stream.
        Returns (complete: bool, flat list of (step index, value) fully contained in buf)."""
        got = []
        try:
            if len(buf) < 9 or bytes(buf[:5]) != MAGIC:
                return False, got
            ln, pos = get_uvarint(buf, 9)
            if pos + ln > len(buf):
                return False, got
            pos += ln
            for i, (name, t, stream) in enumerate(proto.steps):
                qt = M.qualify(t, ns)
                if not stream:
                    v, pos = self.dec(qt, buf, pos)
                    got.append((i, v))
                    continue
                while True:
                    n, pos = get_uvarint(buf, pos)
                    if n == 0:
                        break
                    for _ in range(n):
                        v, pos = self.dec(qt, buf, pos)
                        got.append((i, v))
            return pos == len(buf), got
        except Truncated:
            return False, got

    # ------------------------------------------------------------------ NDJSON
    def json_kind(self, t) -> set:
        """JSON datatypes a value of t can serialize to, per docs/reference/ndjson.md."""
        res = self.env.resolve(t)
        if isinstance(res, tuple):
            if res[0] == "record":
                return {"object"}
            if res[1].flags:
                return {"array", "number"}      # "If the value is outside of the defined values, the underlying integer value is written"
            return {"string", "number"}         # symbol, "or as the integer value if the value is outside of the defined values"
        t = res
        if isinstance(t, Prim):
            n = t.name
            if n == "bool":
                return {"boolean"}
            if n in INT_RANGE or n in ("float32", "float64"):
                return {"number"}
            if n in ("complexfloat32", "complexfloat64"):
                return {"array"}
            return {"string"}                   # string, date, time, datetime "are formatted as strings"
        if isinstance(t, Vec):
            return {"array"}
        if isinstance(t, Arr):
            fixed = isinstance(t.dims, tuple) and all(l is not None for _, l in t.dims)
            return {"array"} if fixed else {"object"}
        if isinstance(t, Map):
            k = self.env.resolve(t.key)
            return {"object"} if (isinstance(k, Prim) and k.name == "string") else {"array"}
        raise TypeError(t)

    def union_is_simple(self, t: Union) -> bool:
        seen = set()
        for _, c in t.cases:
            k = self.json_kind(c)
            if k & seen:
                return False
            seen |= k
        return True

    def to_json(self, t, v):
        res = self.env.resolve(t)
        if isinstance(res, tuple):
            if res[0] == "record":
                out = {}
                for n, ft in self.env.record_fields(res):
                    fr = self.env.resolve(ft)
                    nullable = isinstance(fr, Opt) or (isinstance(fr, Union) and fr.nullable)
                    if nullable and v[n] is None:
                        continue             # "Fields are skipped if they are options ... and the value is null"
                    out[n] = self.to_json(ft, v[n])
                return out
            e = res[1]
            if e.flags:
                if v == 0:
                    zero = [s for s, x in e.values if x == 0]
                    return zero[:1]
                syms, rest = [], v
                for s, x in e.values:
                    if x != 0 and (v & x) == x:
                        syms.append(s)
                        rest &= ~x
                return syms if rest == 0 else v
            for s, x in e.values:
                if x == v:
                    return s
            return v
        t = res
        if isinstance(t, Prim):
            n = t.name
            if n in ("complexfloat32", "complexfloat64"):
                return [v[0], v[1]]
            if n == "date":
                return (datetime.date(1970, 1, 1) + datetime.timedelta(days=v)).isoformat()
            if n == "time":
                return fmt_time(v)
            if n == "datetime":
                return fmt_datetime(v)
            return v
        if isinstance(t, Opt):
            return None if v is None else self.to_json(t.inner, v)
        if isinstance(t, Union):
            if v is None:
                return None
            tag, ct = t.cases[v[1]]
            inner = self.to_json(ct, v[2])
            return inner if self.union_is_simple(t) else {tag: inner}
        if isinstance(t, Vec):
            return [self.to_json(t.inner, x) for x in v]
        if isinstance(t, Arr):
            data = [self.to_json(t.inner, x) for x in v[2]]
            fixed = isinstance(t.dims, tuple) and all(l is not None for _, l in t.dims)
            return data if fixed else {"shape": list(v[1]), "data": data}
        if isinstance(t, Map):
            k = self.env.resolve(t.key)
            if isinstance(k, Prim) and k.name == "string":
                return {kk: self.to_json(t.value, x) for kk, x in v}
            return [[self.to_json(t.key, kk), self.to_json(t.value, x)] for kk, x in v]
        raise TypeError(t)

    def from_json(self, t, j):
        res = self.env.resolve(t)
        if isinstance(res, tuple):
            if res[0] == "record":
                if not isinstance(j, dict):
                    raise Malformed("record expects object")
                out = {}
                for n, ft in self.env.record_fields(res):
                    if n in j:
                        out[n] = self.from_json(ft, j[n])
                    else:
                        fr = self.env.resolve(ft)
                        if isinstance(fr, Opt) or (isinstance(fr, Union) and fr.nullable):
                            out[n] = None
                        else:
                            raise Malformed("missing field " + n)
                return out
            e = res[1]
            if e.flags:
                if isinstance(j, list):
                    v = 0
                    for s in j:
                        m = [x for sym, x in e.values if sym == s]
                        if not m:
                            raise Malformed("flag symbol " + str(s))
                        v |= m[0]
                    return v
                if isinstance(j, int) and not isinstance(j, bool):
                    return j
                raise Malformed("flags")
            if isinstance(j, str):
                m = [x for sym, x in e.values if sym == j]
                if not m:
                    raise Malformed("enum symbol " + j)
                return m[0]
            if isinstance(j, int) and not isinstance(j, bool):
                return j
            raise Malformed("enum")
        t = res
        if isinstance(t, Prim):
            n = t.name
            if n == "bool":
                if not isinstance(j, bool):
                    raise Malformed("bool")
                return j
            if n in INT_RANGE:
                if isinstance(j, bool) or not isinstance(j, int):
                    if isinstance(j, float) and j == int(j):
                        return int(j)
                    raise Malformed("int")
                return j
            if n in ("float32", "float64"):
                if isinstance(j, bool) or not isinstance(j, (int, float)):
                    raise Malformed("float")
                return float(j)
            if n in ("complexfloat32", "complexfloat64"):
                if not (isinstance(j, list) and len(j) == 2):
                    raise Malformed("complex")
                return (float(j[0]), float(j[1]))
            if n == "string":
                if not isinstance(j, str):
                    raise Malformed("string")
                return j
            if not isinstance(j, str):
                raise Malformed(n)
            if n == "date":
                return (datetime.date.fromisoformat(j) - datetime.date(1970, 1, 1)).days
            if n == "time":
                return parse_time(j)
            if n == "datetime":
                return parse_datetime(j)
        if isinstance(t, Opt):
            return None if j is None else self.from_json(t.inner, j)
        if isinstance(t, Union):
            if j is None:
                if not t.nullable:
                    raise Malformed("null in non-nullable union")
                return None
            if self.union_is_simple(t):
                kind = ("boolean" if isinstance(j, bool) else "number" if isinstance(j, (int, float)) else "string" if isinstance(j, str)
                        else "array" if isinstance(j, list) else "object")
                for i, (_, ct) in enumerate(t.cases):
                    if kind in self.json_kind(ct):
                        return ("u", i, self.from_json(ct, j))
                raise Malformed("no union case for json " + kind)
            if not (isinstance(j, dict) and len(j) == 1):
                raise Malformed("tagged union expects single-field object")
            (tag, inner), = j.items()
            if tag == "null" and inner is None and t.nullable:
                # ndjson.md does not say how the null case of a *tagged* union is written; the C++ writer
                # emits {"null":null}, the Python writer null.  Both are accepted here; whether the two
                # languages accept each other's form is decided by C03's cross-language pipelines.
                return None
            for i, (tg, ct) in enumerate(t.cases):
                if tg == tag:
                    return ("u", i, self.from_json(ct, inner))
            raise Malformed("unknown union tag " + tag)
        if isinstance(t, Vec):
            if not isinstance(j, list):
                raise Malformed("vector")
            return [self.from_json(t.inner, x) for x in j]
        if isinstance(t, Arr):
            fixed = isinstance(t.dims, tuple) and all(l is not None for _, l in t.dims)
            if fixed:
                if not isinstance(j, list):
                    raise Malformed("fixed array")
                return ("a", tuple(l for _, l in t.dims), [self.from_json(t.inner, x) for x in j])
            if not isinstance(j, dict) or "shape" not in j or "data" not in j:
                raise Malformed("array object")
            return ("a", tuple(j["shape"]), [self.from_json(t.inner, x) for x in j["data"]])
        if isinstance(t, Map):
            k = self.env.resolve(t.key)
            if isinstance(k, Prim) and k.name == "string":
                if not isinstance(j, dict):
                    raise Malformed("map object")
                return [(kk, self.from_json(t.value, x)) for kk, x in j.items()]
            if not isinstance(j, list):
                raise Malformed("map array")
            return [(self.from_json(t.key, p[0]), self.from_json(t.value, p[1])) for p in j]
        raise TypeError(t)

    def encode_ndjson(self, proto: M.Protocol, ns: str, schema: str, values: list) -> str:
        lines = [json.dumps({"yardl": {"version": NDJSON_VERSION, "schema": json.loads(schema)}}, separators=(",", ":"), ensure_ascii=False)]
        for i, (name, t, stream) in enumerate(proto.steps):
            qt = M.qualify(t, ns)
            if stream:
                for item in values[i]:
                    lines.append(dumps({name: self.to_json(qt, item)}))
            else:
                lines.append(dumps({name: self.to_json(qt, values[i])}))
        return "\n".join(lines) + "\n"

    def decode_ndjson(self, proto: M.Protocol, ns: str, text: str, expected_schema=None):
        """Returns values.  A document is complete when every non-stream step has its line (there is
        no end-of-stream marker in the format)."""
        lines = [l for l in text.split("\n") if l.strip() != ""]
        if not lines:
            raise Truncated(0)
        try:
            hdr = json.loads(lines[0])
        except json.JSONDecodeError:
            raise Malformed("header not json")
        if not (isinstance(hdr, dict) and isinstance(hdr.get("yardl"), dict) and hdr["yardl"].get("version") == NDJSON_VERSION):
            raise Malformed("bad header")
        if expected_schema is not None and hdr["yardl"].get("schema") != json.loads(expected_schema):
            raise Malformed("schema mismatch")
        docs = []
        for l in lines[1:]:
            try:
                d = json.loads(l)
            except json.JSONDecodeError:
                raise Malformed("line not json")
            if not (isinstance(d, dict) and len(d) == 1):
                raise Malformed("line is not a single-field object")
            docs.append(next(iter(d.items())))
        values, k = [], 0
        for i, (name, t, stream) in enumerate(proto.steps):
            qt = M.qualify(t, ns)
            if stream:
                items = []
                while k < len(docs) and docs[k][0] == name:
                    items.append(self.from_json(qt, docs[k][1]))
                    k += 1
                values.append(items)
            else:
                if k >= len(docs):
                    raise Truncated(k)
                if docs[k][0] != name:
                    raise Malformed("expected step %s got %s" % (name, docs[k][0]))
                values.append(self.from_json(qt, docs[k][1]))
                k += 1
        if k != len(docs):
            raise Malformed("trailing lines")
        return values


def dumps(obj) -> str:
    return json.dumps(obj, separators=(",", ":"), ensure_ascii=False, allow_nan=False)


def fmt_time(ns: int) -> str:
    s, frac = divmod(ns, 10**9)
    h, rem = divmod(s, 3600)
    m, sec = divmod(rem, 60)
    return "%02d:%02d:%02d.%09d" % (h, m, sec, frac)


def parse_time(s: str) -> int:
    hms, _, frac = s.partition(".")
    parts = hms.split(":")
    if len(parts) not in (2, 3):
        raise Malformed("time " + s)
    h, m = int(parts[0]), int(parts[1])
    sec = int(parts[2]) if len(parts) == 3 else 0
    frac = (frac + "000000000")[:9] if frac else "0"
    return ((h * 60 + m) * 60 + sec) * 10**9 + int(frac)


def fmt_datetime(ns: int) -> str:
    s, frac = divmod(ns, 10**9)
    d = datetime.datetime(1970, 1, 1) + datetime.timedelta(seconds=s)
    return d.strftime("%Y-%m-%dT%H:%M:%S") + ".%09dZ" % frac


def parse_datetime(s: str) -> int:
    s = s.strip()
    if s.endswith("Z"):
        s = s[:-1]
    date, _, tm = s.replace(" ", "T").partition("T")
    days = (datetime.date.fromisoformat(date) - datetime.date(1970, 1, 1)).days
    return days * 86400 * 10**9 + (parse_time(tm) if tm else 0)


# ----------------------------------------------------------------------------------------
# Self-test against the worked examples in the documentation
# ----------------------------------------------------------------------------------------

DOC_HEX = ("79 61 72 64 6c 01 00 00 00 b0 02", "9a 99 99 3f 9a 99 59 40 33 33 b3 40 9a 99 f9 40 03 01 04 03 08 05 0c 02 bc 05 c0 0c 80 ea 30 bf ee 6d 00")
DOC_SCHEMA = ('{"protocol":{"name":"MyProtocol","sequence":[{"name":"floatArray","type":{"array":{"items":"float32","dimensions":[{"length":2},{"length":2}]}}},'
              '{"name":"points","type":{"stream":{"items":"Sandbox.Point"}}}]},"types":[{"name":"Point","fields":[{"name":"x","type":"uint64"},{"name":"y","type":"int32"}]}]}')


def selftest():
    """Worked example of docs/reference/binary.md and the sample of docs/reference/ndjson.md."""
    from .values import f32
    point = M.Record("Point", (), [("x", Prim("uint64")), ("y", Prim("int32"))])
    proto = M.Protocol("MyProtocol", [("floatArray", Arr(Prim("float32"), ((None, 2), (None, 2))), False), ("points", M.Named("Point"), True)])
    pkg = M.Package("Sandbox", "pkg", {"m.yml": [point, proto]})
    c = Codec(M.Env(pkg))
    vals = [("a", (2, 2), [f32(1.2), f32(3.4), f32(5.6), f32(7.8)]),
            [{"x": 1, "y": 2}, {"x": 3, "y": 4}, {"x": 5, "y": 6}, {"x": 700, "y": 800}, {"x": 800000, "y": -900000}]]
    got = c.encode_stream(proto, "Sandbox", DOC_SCHEMA, vals, {1: [3, 2]})
    want = bytes.fromhex(DOC_HEX[0].replace(" ", "")) + DOC_SCHEMA.encode() + bytes.fromhex(DOC_HEX[1].replace(" ", ""))
    assert len(DOC_SCHEMA) == 304, len(DOC_SCHEMA)
    assert got == want, "binary.md worked example does not reproduce"
    v2, parts, _ = c.decode_stream(proto, "Sandbox", got, DOC_SCHEMA)
    assert parts == {1: [3, 2]} and v2[1] == vals[1]
    for cut in range(len(got)):
        try:
            c.decode_stream(proto, "Sandbox", got[:cut], DOC_SCHEMA)
            raise AssertionError("prefix %d decoded as complete" % cut)
        except Truncated:
            pass
    # zig-zag and varint tables of binary.md
    assert [zigzag(x) for x in (0, -1, 1, -2, 2)] == [0, 1, 2, 3, 4]
    for v, enc in ((0, "00"), (1, "01"), (127, "7f"), (128, "8001"), (129, "8101")):
        b = bytearray(); put_uvarint(b, v); assert b.hex() == enc
    u = Union((("uint32", Prim("uint32")), ("float32", Prim("float32"))), nullable=True)
    for val, enc in ((None, "00"), (("u", 0, 6), "0106"), (("u", 1, f32(95.72)), "02a470bf42")):
        b = bytearray(); c.enc(u, val, b); assert b.hex() == enc, (val, b.hex())
    b = bytearray(); c.enc(Prim("string"), "hello", b); assert b.hex() == "0568656c6c6f"
    # ndjson.md sample values
    rec = M.Record("MyRecord", (), [("x", Prim("int32")), ("y", Prim("int32")), ("z", Opt(Prim("int32")))])
    en = M.Enum("MyEnum", None, [("a", 0), ("b", 1), ("c", 2)])
    fl = M.Enum("MyFlags", None, [("a", 1), ("b", 2), ("c", 4)], flags=True)
    pkg2 = M.Package("Sandbox", "pkg", {"m.yml": [rec, en, fl]})
    c2 = Codec(M.Env(pkg2))
    q = lambda t: M.qualify(t, "Sandbox")
    cases = [
        (Prim("bool"), True, "true"), (Prim("string"), "hello", '"hello"'), (Prim("complexfloat64"), (1.0, 2.0), "[1.0,2.0]"),
        (Prim("date"), 18278, '"2020-01-17"'), (Prim("time"), 39025777888999, '"10:50:25.777888999"'),
        (Prim("datetime"), 1685471816708792349, '"2023-05-30T18:36:56.708792349Z"'),
        (q(M.Named("MyEnum")), 0, '"a"'), (q(M.Named("MyFlags")), 3, '["a","b"]'), (Opt(Prim("int32")), None, "null"), (Opt(Prim("int32")), 42, "42"),
        (q(M.Named("MyRecord")), {"x": 1, "y": 2, "z": None}, '{"x":1,"y":2}'), (q(M.Named("MyRecord")), {"x": 1, "y": 2, "z": 3}, '{"x":1,"y":2,"z":3}'),
        (Vec(Prim("int32")), [1, 2, 3], "[1,2,3]"), (Arr(Prim("int32"), None), ("a", (2, 3), [1, 2, 3, 4, 5, 6]), '{"shape":[2,3],"data":[1,2,3,4,5,6]}'),
        (Arr(Prim("int32"), ((None, 2), (None, 3))), ("a", (2, 3), [1, 2, 3, 4, 5, 6]), "[1,2,3,4,5,6]"),
        (Map(Prim("string"), Prim("int32")), [("b", 2), ("a", 1)], '{"b":2,"a":1}'), (Map(Prim("int32"), Prim("int32")), [(2, 2), (1, 1)], "[[2,2],[1,1]]"),
        (Union((("int32", Prim("int32")), ("bool", Prim("bool")))), ("u", 0, 22), "22"),
        (Union((("string", Prim("string")), ("MyEnum", q(M.Named("MyEnum"))))), ("u", 0, "a"), '{"string":"a"}'),
        (Union((("float32", Prim("float32")), ("float64", Prim("float64")))), ("u", 1, 882.2), '{"float64":882.2}'),
    ]
    for t, v, text in cases:
        assert dumps(c2.to_json(t, v)) == text, (t, dumps(c2.to_json(t, v)), text)
        back = c2.from_json(t, json.loads(text))
        assert back == v, (t, back, v)
    return True


if __name__ == "__main__":
    selftest()
    print("reference codec self-test ok")
