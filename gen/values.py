"""Workload generator, part 3: values in a neutral form, and their equality.

Neutral form (shares nothing with yardl's generated classes):
  bool -> bool; integers, enums, flags -> int; float32/64 -> float (f32 values are exactly
  representable in f32); complex -> (re, im); string -> str; date -> int days since epoch;
  time -> int ns since midnight; datetime -> int ns since epoch; optional -> None | v;
  union -> ("u", index among the non-null cases, v) | None; vector -> list;
  array -> ("a", shape tuple, flat row-major list); map -> list of (k, v) pairs (unordered);
  record -> dict field name -> v (declaration order).
"""
from __future__ import annotations

import math, struct

from . import model as M
from .model import Prim, Named, Opt, Union, Vec, Arr, Map, Rng, INT_RANGE

F32_MAX = struct.unpack("<f", b"\xff\xff\x7f\x7f")[0]
F32_MIN_SUB = struct.unpack("<f", b"\x01\x00\x00\x00")[0]

STRINGS = ["", "a", "hello", "héllo wörld", "日本語テキスト", "emoji \U0001F600 \U0001F680", "quote\" back\\slash", "line\nbreak\ttab",
           "ctrl\u0001\u001f", "nul\u0000in", " leading and trailing ", "ÿ" * 7, "0", "null", "true", "{\"k\":1}", "[1,2]", "2020-01-17",
           # characters that some line-splitting routines take for line ends although JSON does not escape them
           "next\u0085line", "line\u2028sep and para\u2029sep", "form\x0cfeed and vt\x0b", "bom\ufeffinside"]


def f32(x: float) -> float:
    return struct.unpack("<f", struct.pack("<f", x))[0]


class ValueGen:
    def __init__(self, env: M.Env, rng: Rng, finite_only=False, big=False, json_safe=False):
        self.env = env
        self.rng = rng
        self.finite_only = finite_only    # NDJSON cannot carry NaN / inf
        self.json_safe = json_safe        # dates within the range every JSON date formatter handles
        self.big = big                    # allow long strings / containers
        self.budget = 4000                # bound on total elements of one value

    def gen(self, t):
        """t: qualified closed type."""
        r = self.rng
        res = self.env.resolve(t)
        if isinstance(res, tuple):
            if res[0] == "record":
                fields = self.env.record_fields(res)
                kinds = [self.env.resolve(ft) for _, ft in fields]
                if fields and all(isinstance(k, Opt) or (isinstance(k, Union) and k.nullable) for k in kinds) and r.fork("allunset", len(fields)).chance(0.35):
                    # a record none of whose fields is set: the value that has no members at all in NDJSON
                    return {n: None for n, _ in fields}
                return {n: self.gen(ft) for n, ft in fields}
            return self.gen_enum(res[1])
        t = res
        if isinstance(t, Prim):
            return self.gen_prim(t.name)
        if isinstance(t, Opt):
            return None if r.chance(0.3) else self.gen(t.inner)
        if isinstance(t, Union):
            if t.nullable and r.chance(0.2):
                return None
            i = r.randrange(len(t.cases))
            return ("u", i, self.gen(t.cases[i][1]))
        if isinstance(t, Vec):
            n = t.length if t.length is not None else self.length()
            return [self.gen(t.inner) for _ in range(n)]
        if isinstance(t, Arr):
            return self.gen_array(t)
        if isinstance(t, Map):
            n = self.length(4)
            out, seen = [], set()
            for _ in range(n * 3):
                if len(out) >= n:
                    break
                k = self.gen(t.key)
                if k != k or k in seen:      # (NaN is not a usable key: it equals nothing, itself included)
                    continue
                seen.add(k)
                out.append((k, self.gen(t.value)))
            return out
        raise TypeError(t)

    def length(self, hi=5) -> int:
        r = self.rng
        if self.budget <= 0:
            return 0
        if self.big and r.chance(0.05):
            n = r.randint(50, 400)
        else:
            n = r.weighted([(0, 2), (1, 3), (2, 3), (3, 2), (hi, 1)])
        self.budget -= n
        return n

    def gen_array(self, t: Arr):
        r = self.rng
        if t.dims is None:
            nd = r.randint(0, 3)
            shape = tuple(r.randint(0, 3) for _ in range(nd))
        elif isinstance(t.dims, int):
            shape = tuple(r.randint(0, 3) for _ in range(t.dims))
        elif all(l is not None for _, l in t.dims):
            shape = tuple(l for _, l in t.dims)
        else:
            shape = tuple(r.randint(0, 3) for _ in t.dims)
        n = 1
        for s in shape:
            n *= s
        self.budget -= n
        return ("a", shape, [self.gen(t.inner) for _ in range(n)])

    def gen_enum(self, e: M.Enum):
        r = self.rng
        lo, hi = INT_RANGE[e.base or "int32"]
        if e.flags:
            v = 0
            if r.chance(0.4):
                # any pattern of the bits the symbols mention, whole symbols or not
                mask = 0
                for _, bit in e.values:
                    mask |= bit
                for b in range(mask.bit_length()):
                    if mask >> b & 1 and r.chance(0.5):
                        v |= 1 << b
            else:
                for _, bit in e.values:
                    if r.chance(0.5):
                        v |= bit
            if r.chance(0.1):
                cand = v | (1 << r.randint(0, 6))
                if lo <= cand <= hi:
                    v = cand
            return v
        if r.chance(0.1):
            cand = r.choice([7, 42, 99, -3, hi, lo])
            if lo <= cand <= hi:
                return cand
        return r.choice(e.values)[1]

    def gen_int(self, name: str) -> int:
        r = self.rng
        lo, hi = INT_RANGE[name]
        if r.chance(0.5):
            c = r.choice([0, 1, -1, 2, 63, 64, 127, 128, 255, 256, 16383, 16384, 32767, 65535, (1 << 21) - 1, 1 << 21,
                          (1 << 31) - 1, 1 << 31, (1 << 32) - 1, (1 << 35), (1 << 63) - 1, lo, hi, lo + 1, hi - 1, -64, -65, -128, -129])
            if r.chance(0.4):
                # every power of two and its neighbours, either sign: where the number of varint bytes changes, where
                # a word boundary is crossed, single high bits with nothing below them
                c = (1 << r.randint(0, 64)) + r.choice([-1, 0, 0, 1])
                if r.chance(0.4):
                    c = -c
            if lo <= c <= hi:
                return c
        bits = r.randint(1, hi.bit_length())
        v = r.next() & ((1 << bits) - 1)
        if lo < 0 and r.chance(0.5):
            v = -v - 1
        return max(lo, min(hi, v))

    def gen_float(self, name: str) -> float:
        r = self.rng
        if name == "float32":
            edge = [0.0, -0.0, 1.0, -1.5, 0.1, 3.4028234663852886e38, F32_MIN_SUB, 16777217.0, 1e-20]
            if not self.finite_only:
                edge += [math.inf, -math.inf, math.nan]
            if r.chance(0.5):
                return f32(r.choice(edge))
            bits = r.next() & 0xFFFFFFFF
            v = struct.unpack("<f", struct.pack("<I", bits))[0]
            if math.isnan(v) or (self.finite_only and math.isinf(v)):
                return f32(1.25)
            return v
        edge = [0.0, -0.0, 1.0, -2.5, 0.1, 1.7976931348623157e308, 5e-324, 9007199254740993.0, 1e-300, 123456789.123456789]
        if not self.finite_only:
            edge += [math.inf, -math.inf, math.nan]
        if r.chance(0.5):
            return r.choice(edge)
        v = struct.unpack("<d", struct.pack("<Q", r.next()))[0]
        if math.isnan(v) or (self.finite_only and math.isinf(v)):
            return 2.5
        return v

    def gen_string(self) -> str:
        r = self.rng
        if self.big and r.chance(0.03):
            return r.choice(["x", "é", "日"]) * r.choice([200, 5000, 70000])
        if r.chance(0.7):
            return r.choice(STRINGS)
        n = r.randint(1, 12)
        return "".join(chr(r.choice([r.randint(32, 126), r.randint(0xA0, 0x24F), r.randint(0x4E00, 0x4E80)])) for _ in range(n))

    def gen_prim(self, name: str):
        r = self.rng
        if name == "bool":
            return r.chance(0.5)
        if name in INT_RANGE:
            return self.gen_int(name)
        if name in ("float32", "float64"):
            return self.gen_float(name)
        if name == "complexfloat32":
            return (self.gen_float("float32"), self.gen_float("float32"))
        if name == "complexfloat64":
            return (self.gen_float("float64"), self.gen_float("float64"))
        if name == "string":
            return self.gen_string()
        if name == "date":
            return r.choice([0, 1, -1, 18278, 19000, 11016, -25567, 47482, r.randint(-20000, 40000)])
        if name == "time":
            return r.choice([0, 1, 999, 1000, 86399999999999, 39025777888999, r.randint(0, 86399999999999),
                             r.randint(0, 86399999999) * 1000, r.randint(0, 86399) * 10**9])      # (also whole microseconds / seconds: what datetime.time can hold)
        if name == "datetime":
            return r.choice([0, 1, -1, 1685471816708792349, 1000000000, r.randint(-(1 << 60), 1 << 61) if not self.json_safe else r.randint(0, 1 << 61),
                             r.randint(0, 2 * 10**18),
                             # whole microseconds (what datetime.datetime can hold), before and after 1970
                             r.randint(0 if self.json_safe else -2 * 10**15, 2 * 10**15) * 1000,
                             r.randint(0 if self.json_safe else -2 * 10**15, 2 * 10**15) * 1000,
                             r.randint(0 if self.json_safe else -2 * 10**9, 2 * 10**9) * 10**9])
        raise ValueError(name)


# ----------------------------------------------------------------------------------------
# Equality
# ----------------------------------------------------------------------------------------

def feq(a: float, b: float, bits32=False) -> bool:
    if isinstance(a, bool) or isinstance(b, bool):
        return a == b
    try:
        if bits32:
            return struct.pack("<f", a) == struct.pack("<f", b)
        return struct.pack("<d", float(a)) == struct.pack("<d", float(b))
    except (OverflowError, struct.error, TypeError):
        return False


def veq(env: M.Env, t, a, b, numeric_floats=False) -> bool:
    """Equality of neutral values of (qualified, closed) type t.  Floats by bit pattern (NaN == NaN,
    0.0 != -0.0) unless numeric_floats (JSON carries no sign of zero guarantee... it does, but not NaN)."""
    res = env.resolve(t)
    if isinstance(res, tuple):
        if res[0] == "record":
            if not isinstance(a, dict) or not isinstance(b, dict) or list(a) != list(b):
                return False
            return all(veq(env, ft, a[n], b[n], numeric_floats) for n, ft in env.record_fields(res))
        return type(a) is int and type(b) is int and a == b
    t = res
    if isinstance(t, Prim):
        n = t.name
        if n == "bool":
            return isinstance(a, bool) and isinstance(b, bool) and a == b
        if n in ("float32", "float64"):
            if not isinstance(a, (int, float)) or not isinstance(b, (int, float)):
                return False
            if numeric_floats:
                return float(a) == float(b) or (math.isnan(a) and math.isnan(b))
            return feq(a, b, n == "float32")
        if n in ("complexfloat32", "complexfloat64"):
            if not (isinstance(a, tuple) and isinstance(b, tuple) and len(a) == 2 and len(b) == 2):
                return False
            s = "float32" if n == "complexfloat32" else "float64"
            return all(veq(env, Prim(s), x, y, numeric_floats) for x, y in zip(a, b))
        if n == "string":
            return isinstance(a, str) and isinstance(b, str) and a == b
        return type(a) is int and type(b) is int and a == b
    if isinstance(t, Opt):
        if a is None or b is None:
            return a is None and b is None
        return veq(env, t.inner, a, b, numeric_floats)
    if isinstance(t, Union):
        if a is None or b is None:
            return a is None and b is None
        if not (isinstance(a, tuple) and isinstance(b, tuple) and a[0] == "u" and b[0] == "u") or a[1] != b[1]:
            return False
        return veq(env, t.cases[a[1]][1], a[2], b[2], numeric_floats)
    if isinstance(t, Vec):
        return isinstance(a, list) and isinstance(b, list) and len(a) == len(b) and all(veq(env, t.inner, x, y, numeric_floats) for x, y in zip(a, b))
    if isinstance(t, Arr):
        if not (isinstance(a, tuple) and isinstance(b, tuple) and a[0] == "a" and b[0] == "a"):
            return False
        return tuple(a[1]) == tuple(b[1]) and len(a[2]) == len(b[2]) and all(veq(env, t.inner, x, y, numeric_floats) for x, y in zip(a[2], b[2]))
    if isinstance(t, Map):
        if not (isinstance(a, list) and isinstance(b, list)) or len(a) != len(b):
            return False
        db = {k: v for k, v in b}
        if len(db) != len(b):
            return False
        for k, v in a:
            if k not in db or not veq(env, t.value, v, db[k], numeric_floats):
                return False
        return True
    raise TypeError(t)


def first_diff(env, t, a, b, path="", numeric_floats=False) -> str:
    """Human-readable location of the first difference (for violation reports)."""
    if veq(env, t, a, b, numeric_floats):
        return ""
    res = env.resolve(t)
    if isinstance(res, tuple) and res[0] == "record" and isinstance(a, dict) and isinstance(b, dict):
        for n, ft in env.record_fields(res):
            if n not in a or n not in b:
                return "%s.%s missing" % (path, n)
            d = first_diff(env, ft, a[n], b[n], path + "." + n, numeric_floats)
            if d:
                return d
    if isinstance(res, Vec) and isinstance(a, list) and isinstance(b, list) and len(a) == len(b):
        for i, (x, y) in enumerate(zip(a, b)):
            d = first_diff(env, res.inner, x, y, "%s[%d]" % (path, i), numeric_floats)
            if d:
                return d
    return "%s: %.120r != %.120r" % (path or "value", a, b)
