#!/bin/bash
# Builds the framework from files on disk only (offline) and runs the simulators' self-tests.
set -eu
cd "$(dirname "$0")"
export GOFLAGS=-mod=mod GOPROXY=off GOSUMDB=off GOTOOLCHAIN=local PYTHONHASHSEED=0 PYTHONDONTWRITEBYTECODE=1
mkdir -p build evidence replays
python3-vt toolworld/selftest.py 32
if [ -f streamworld/selftest.py ]; then python3-vt streamworld/selftest.py; fi
echo "setup ok"
