"""Streamworld, C++ nodes: one harness executable per generated model.

Real code: the C++ `yardl generate` emits (types, protocols, binary/ and ndjson/ readers and writers)
plus the shipped headers yardl/detail/**, compiled with g++ -std=c++17.  Stubs (third-party code that
is not installed and cannot be fetched): the nd-array header (via yardl's documented
cpp.overrideArrayHeader option) and Howard Hinnant's date/date.h — both under streamworld/shims.

The harness main() is emitted here from the *generated* protocols.h (method names and C++ value types
are parsed out of it, so no name mangling or type mapping of yardl's is re-implemented).  It executes a
plan (JSON) of runs: relays built on CopyTo, and API-call scripts, over simulated stream buffers.
"""
from __future__ import annotations

import hashlib, json, os, re, shutil, subprocess, sys, tempfile
from concurrent.futures import ThreadPoolExecutor

VERIF = os.path.dirname(os.path.dirname(os.path.abspath(__file__)))
SHIMS = os.path.join(VERIF, "streamworld", "shims")
JSON_INC = os.environ.get("VERIF_NLOHMANN_INC", "/root/miniconda/include")
CPP_OPTS = {"overrideArrayHeader": os.path.join(SHIMS, "verif_ndarray.h")}


class HarnessTrouble(Exception):
    pass


class GeneratedCodeDoesNotCompile(Exception):
    pass


def parse_protocols_h(text: str):
    """-> (namespace, versions, {protocol: [ {pascal, type, stream} ]}, {protocol: copyto buffer params})"""
    m = re.search(r"namespace\s+([\w:]+)\s*\{", text)
    ns = m.group(1)
    vm = re.search(r"enum class Version\s*\{([^}]*)\}", text)
    versions = [v.strip() for v in vm.group(1).split(",") if v.strip()] if vm else ["Current"]
    protos, copyto = {}, {}
    for cm in re.finditer(r"class (\w+)ReaderBase \{(.*?)\n\};", text, re.S):
        name, body = cm.group(1), cm.group(2)
        steps = []
        for line in body.split("\n"):
            line = line.strip()
            mm = re.match(r"(?:\[\[nodiscard\]\] )?(void|bool) Read(\w+)\((.*)& (value|values)\);$", line)
            if not mm or mm.group(2).endswith("Impl"):
                continue
            ret, pascal, typ, arg = mm.groups()
            if arg == "values":
                continue   # batch overload of the same step
            steps.append({"pascal": pascal, "type": typ.strip(), "stream": ret == "bool"})
        protos[name] = steps
        ct = re.search(r"void CopyTo\(%sWriterBase& writer(.*?)\);" % name, body)
        copyto[name] = len(re.findall(r"size_t", ct.group(1))) if ct else 0
    return ns, versions, protos, copyto


HARNESS_PRELUDE = r'''
// Emitted by /verif/streamworld/cppnode.py.  Not yardl code.
#include <cstdint>
#include <deque>
#include <locale>
#include <iomanip>
#include <iostream>
#include <fstream>
#include <sstream>
#include <memory>
#include <string>
#include <vector>
#include <streambuf>
#include "binary/protocols.h"
#include "ndjson/protocols.h"

using json = nlohmann::json;

static std::string unhex(std::string const& h) {
  std::string out; out.reserve(h.size() / 2);
  auto v = [](char c) -> int { return c <= '9' ? c - '0' : (c | 32) - 'a' + 10; };
  for (size_t i = 0; i + 1 < h.size(); i += 2) out.push_back(static_cast<char>(v(h[i]) * 16 + v(h[i + 1])));
  return out;
}
static std::string hex(std::string const& s) {
  static const char* d = "0123456789abcdef";
  std::string out; out.reserve(s.size() * 2);
  for (unsigned char c : s) { out.push_back(d[c >> 4]); out.push_back(d[c & 15]); }
  return out;
}

// Read side of the simulated channel: delivers the bytes in chunks of seeded sizes; EOF after the last byte.
class SimInBuf : public std::streambuf {
 public:
  SimInBuf(std::string data, int mode, uint64_t seed) : data_(std::move(data)), mode_(mode), s_(seed * 2654435761u + 12345) {}
  size_t underflows = 0;
 protected:
  int_type underflow() override {
    if (pos_ >= data_.size()) return traits_type::eof();
    size_t k = data_.size() - pos_;
    if (mode_ == 1) k = 1;
    else if (mode_ == 2) k = std::min<size_t>(k, 1 + next() % 7);
    else if (mode_ == 3) { static const size_t sizes[] = {1, 2, 3, 5, 64, 1000, 4096, 8192, 65536, 65537}; k = std::min<size_t>(k, sizes[next() % 10]); }
    char* b = data_.data() + pos_;
    setg(b, b, b + k);
    pos_ += k;
    underflows++;
    return traits_type::to_int_type(*b);
  }
 private:
  uint64_t next() { s_ = s_ * 6364136223846793005ULL + 1442695040888963407ULL; return s_ >> 33; }
  std::string data_; size_t pos_ = 0; int mode_; uint64_t s_;
};

// Write side: records everything; optional write error once fail_at bytes have been accepted.
class SimOutBuf : public std::streambuf {
 public:
  explicit SimOutBuf(long long fail_at) : fail_at_(fail_at) {}
  std::string data;
  bool failed = false;
 protected:
  int_type overflow(int_type c) override {
    if (c == traits_type::eof()) return traits_type::not_eof(c);
    char ch = traits_type::to_char_type(c);
    return xsputn(&ch, 1) == 1 ? c : traits_type::eof();
  }
  std::streamsize xsputn(const char* s, std::streamsize n) override {
    if (fail_at_ >= 0 && static_cast<long long>(data.size()) + n > fail_at_) {
      std::streamsize keep = std::max<long long>(0, fail_at_ - static_cast<long long>(data.size()));
      data.append(s, static_cast<size_t>(keep));
      failed = true;
      return keep;
    }
    data.append(s, static_cast<size_t>(n));
    return n;
  }
 private:
  long long fail_at_;
};

struct HarnessBase {
  virtual ~HarnessBase() = default;
  virtual void make_reader(std::string const& fmt, std::istream& in) = 0;
  virtual void make_writer(std::string const& fmt, std::ostream& out, std::string const& version) = 0;
  virtual void copy_to(std::vector<size_t> const& sizes) = 0;
  virtual void copy_from(std::istream& in2, std::vector<size_t> const& sizes) = 0;
  virtual void close_reader() = 0;
  virtual void close_writer() = 0;
  virtual void flush_writer() = 0;
  virtual bool read_one(int k) = 0;
  virtual bool read_one_into_kept(int k) = 0;
  virtual void clear_queues() = 0;
  virtual bool read_batch(int k, size_t n, size_t& got) = 0;
  virtual void write_one(int k) = 0;
  virtual void write_batch(int k, size_t n, size_t& put) = 0;
  virtual void end_stream(int k) = 0;
  virtual void drop_reader() = 0;
  virtual void drop_writer() = 0;
  virtual void arm(bool on) = 0;
};

// Fault point inside the implementation methods (the virtual <Step>Impl calls behind the public step methods) of the
// "faulty" readers and writers: when armed, the next implementation call throws before doing anything.
struct FaultPoint {
  bool armed = false;
  void hit() { if (armed) { armed = false; throw std::runtime_error("harness: injected failure of the implementation call"); } }
};

struct GroupingPunct : std::numpunct<char> {
  char do_thousands_sep() const override { return ','; }
  std::string do_grouping() const override { return "\3"; }
  char do_decimal_point() const override { return ','; }
};

static void apply_ostream_state(std::ostream& out, int state) {
  switch (state) {
    case 1: out << std::hex << std::showbase; break;
    case 2: out << std::showpos; break;
    case 3: out << std::oct; break;
    case 4: out.imbue(std::locale(std::locale::classic(), new GroupingPunct)); break;
    case 5: out << std::uppercase << std::scientific << std::boolalpha; out.precision(3); break;
    case 6: out << std::left << std::internal; out.fill('*'); break;
    default: break;
  }
}

template <typename T> static T pop_front_or_default(std::deque<T>& q) {
  if (q.empty()) return T{};
  T v = std::move(q.front()); q.pop_front(); return v;
}
'''

HARNESS_MAIN = r'''
static std::unique_ptr<HarnessBase> make_harness(std::string const& proto);

static json run_one(json const& run, std::vector<std::string> const& inputs) {
  json res; res["id"] = run["id"];
  std::string proto = run["proto"], op = run["op"];
  auto h = make_harness(proto);
  if (!h) { res["ok"] = false; res["phase"] = "harness"; res["what"] = "unknown protocol"; return res; }
  std::string input = inputs.at(run.value("input", 0));
  long long cut = run.value("cut", -1LL);
  if (cut >= 0 && static_cast<size_t>(cut) < input.size()) input.resize(static_cast<size_t>(cut));
  if (run.contains("flip")) { long long bit = run["flip"]; size_t byte = static_cast<size_t>(bit / 8); if (byte < input.size()) input[byte] = static_cast<char>(input[byte] ^ (1 << (bit % 8))); }
  if (run.contains("subst")) { size_t at = run["subst"][0]; int b = run["subst"][1]; if (at < input.size()) input[at] = static_cast<char>(b); }
  SimInBuf inbuf(input, run.value("chunk_mode", 0), run.value("chunk_seed", 1));
  std::istream in(&inbuf);
  SimOutBuf outbuf(run.value("fail_at", -1LL));
  std::ostream out(&outbuf);
  // the state the caller's output stream is in when the writer gets it (a stream that was used for other output before)
  apply_ostream_state(out, run.value("ostate", 0));
  // ... and the caller's input stream: state 7 = a stream on which its owner enabled exceptions (a common idiom)
  if (run.value("ostate", 0) == 7) in.exceptions(std::ios::failbit | std::ios::badbit);
  std::string phase = "start";
  res["ok"] = true;
  try {
    if (op == "relay") {
      phase = "construct_reader"; h->make_reader(run["in_fmt"], in);
      phase = "construct_writer"; h->make_writer(run["out_fmt"], out, run.value("version", std::string("Current")));
      phase = "copy"; h->copy_to(run.value("batch", std::vector<size_t>{}));
      phase = "close_reader"; h->close_reader();
      phase = "close_writer"; h->close_writer();
      phase = "done";
    } else if (op == "script") {
      // prefill: a separate reader fills the per-step value queues from the (intact) pool input
      if (run.contains("pool")) {
        std::string pool = inputs.at(run["pool"]);
        SimInBuf pbuf(pool, 0, 1); std::istream pin(&pbuf);
        phase = "prefill"; h->make_reader("binary", pin);
        json const& shape = run["pool_shape"];   // [ [k, count] ... ] in order
        for (auto const& e : shape) { int k = e[0]; long long n = e[1]; if (n < 0) h->read_one(k); else { for (long long i = 0; i < n; i++) (void)h->read_one(k); (void)h->read_one(k); } }
        h->close_reader(); h->drop_reader();
      }
      json calls = json::array();
      std::vector<std::unique_ptr<SimInBuf>> extra_bufs;
      std::vector<std::unique_ptr<std::istream>> extra_ins;
      for (auto const& c : run["script"]) {
        std::string what = c[0];
        json cr; cr["r"] = "ok";
        phase = "script";
        try {
          if (what == "mkR") h->make_reader(c[1], in);
          else if (what == "mkRI") {
            // a reader over another input of the plan (the caller opens the next file with the same variables at hand)
            extra_bufs.push_back(std::make_unique<SimInBuf>(inputs.at(c[2].get<size_t>()), 0, 1));
            extra_ins.push_back(std::make_unique<std::istream>(extra_bufs.back().get()));
            h->make_reader(c[1], *extra_ins.back());
          }
          else if (what == "R1D") { bool ok = h->read_one_into_kept(c[1]); cr["r"] = ok ? "ok" : "end"; }
          else if (what == "CLRQ") h->clear_queues();
          else if (what == "mkW") h->make_writer(c[1], out, c.size() > 2 ? c[2].get<std::string>() : std::string("Current"));
          else if (what == "R1") { bool ok = h->read_one(c[1]); cr["r"] = ok ? "ok" : "end"; }
          else if (what == "RB") { size_t got = 0; bool more = h->read_batch(c[1], c[2], got); cr["r"] = more ? "ok" : "end"; cr["n"] = got; }
          else if (what == "W1") h->write_one(c[1]);
          else if (what == "WB") { size_t put = 0; h->write_batch(c[1], c[2], put); cr["n"] = put; }
          else if (what == "E") h->end_stream(c[1]);
          else if (what == "CR") h->close_reader();
          else if (what == "CW") h->close_writer();
          else if (what == "FW") h->flush_writer();
          else if (what == "CT") {
            // CopyTo of a second, fresh binary reader over the intact stream into the writer under test, whatever state that is in
            SimInBuf b2(inputs.at(0), 0, 1); std::istream in2(&b2);
            h->copy_from(in2, std::vector<size_t>(16, c.size() > 1 ? c[1].get<size_t>() : 1));
          }
          else if (what == "ARM") h->arm(true);
          else if (what == "DISARM") h->arm(false);
          else { cr["r"] = "exc"; cr["what"] = "unknown op"; }
        } catch (std::exception const& e) {
          cr["r"] = "exc"; cr["what"] = e.what();
          calls.push_back(cr);
          if (run.value("keep_going", false)) continue;   // histories that go on after a rejected call
          break;
        }
        calls.push_back(cr);
      }
      res["calls"] = calls;
      if (!extra_ins.empty()) { try { h->drop_reader(); } catch (...) { res["dtor_threw"] = true; } }   // (before its stream goes)
      phase = "done";
    }
  } catch (...) {
    std::exception_ptr ep = std::current_exception();
    std::string early, late; bool std_exc = false;
    try { std::rethrow_exception(ep); } catch (std::exception const& e) { early = e.what(); std_exc = true; } catch (...) {}
    res["ok"] = false; res["what"] = std_exc ? early : std::string("non-std exception");
    // the handler of a caller whose reader and writer lived inside the try block: both are gone when the report is read.
    // An error report must not point into memory that they owned.
    try { h->drop_reader(); h->drop_writer(); } catch (...) { res["dtor_threw"] = true; }
    if (std_exc) {
      try { std::rethrow_exception(ep); } catch (std::exception const& e) { late = e.what(); } catch (...) {}
      if (late != early) res["what_after_reader_gone"] = late;
    }
  }
  res["phase"] = phase;
  // destruction of readers/writers must not throw or abort either
  try { h->drop_reader(); h->drop_writer(); } catch (...) { res["dtor_threw"] = true; }
  res["out"] = hex(outbuf.data);
  res["out_failed"] = outbuf.failed;
  res["stream_bad"] = out.bad();
  res["underflows"] = inbuf.underflows;
  return res;
}

int main(int argc, char** argv) {
  if (argc < 3) { std::cerr << "usage: harness <plan.json> <results.json>\n"; return 2; }
  std::ifstream pf(argv[1]);
  json plan = json::parse(pf);
  std::vector<std::string> inputs;
  for (auto const& h : plan["inputs"]) inputs.push_back(unhex(h.get<std::string>()));
  std::ofstream rf(argv[2]);
  size_t from = plan.value("from", 0), to = plan.value("to", plan["runs"].size());
  for (size_t i = from; i < to && i < plan["runs"].size(); i++) {
    json r = run_one(plan["runs"][i], inputs);
    rf << r.dump(-1, ' ', false, json::error_handler_t::replace) << "\n";   // exception texts may quote input bytes that are not UTF-8
    rf.flush();
  }
  return 0;
}
'''


def emit_harness(ns, versions, protos, copyto) -> str:
    out = [HARNESS_PRELUDE]
    out.append("static %s::Version parse_version(std::string const& v) {" % ns)
    for v in versions:
        out.append('  if (v == "%s") return %s::Version::%s;' % (v, ns, v))
    out.append('  throw std::runtime_error("harness: unknown version label " + v);\n}\n')
    for pname, steps in protos.items():
        H = "H_" + pname
        # the binary writer / reader with a fault point in front of every implementation method
        bw, br = "%s::binary::%sWriter" % (ns, pname), "%s::binary::%sReader" % (ns, pname)
        out.append("struct FW_%s : %s {\n  using %s::%sWriter;\n  FaultPoint fp;" % (pname, bw, bw, pname))
        for s in steps:
            out.append("  void Write%sImpl(%s const& value) override { fp.hit(); %s::Write%sImpl(value); }" % (s["pascal"], s["type"], bw, s["pascal"]))
            if s["stream"]:
                out.append("  void Write%sImpl(std::vector<%s> const& values) override { fp.hit(); %s::Write%sImpl(values); }" % (s["pascal"], s["type"], bw, s["pascal"]))
                out.append("  void End%sImpl() override { fp.hit(); %s::End%sImpl(); }" % (s["pascal"], bw, s["pascal"]))
        out.append("};")
        out.append("struct FR_%s : %s {\n  using %s::%sReader;\n  FaultPoint fp;" % (pname, br, br, pname))
        for s in steps:
            if s["stream"]:
                out.append("  bool Read%sImpl(%s& value) override { fp.hit(); return %s::Read%sImpl(value); }" % (s["pascal"], s["type"], br, s["pascal"]))
                out.append("  bool Read%sImpl(std::vector<%s>& values) override { fp.hit(); return %s::Read%sImpl(values); }" % (s["pascal"], s["type"], br, s["pascal"]))
            else:
                out.append("  void Read%sImpl(%s& value) override { fp.hit(); %s::Read%sImpl(value); }" % (s["pascal"], s["type"], br, s["pascal"]))
        out.append("};")
        out.append("struct %s : HarnessBase {" % H)
        out.append("  FW_%s* fwriter = nullptr; FR_%s* freader = nullptr;" % (pname, pname))
        out.append("  void arm(bool on) override { if (fwriter) fwriter->fp.armed = on; if (freader) freader->fp.armed = on; }")
        for k, s in enumerate(steps):
            out.append("  std::deque<%s> q%d;" % (s["type"], k))
            out.append("  %s kept%d{};      // a destination that the caller keeps and reuses from read to read, from file to file" % (s["type"], k))
        out.append("  std::unique_ptr<%s::%sReaderBase> reader; std::unique_ptr<%s::%sWriterBase> writer;" % (ns, pname, ns, pname))
        out.append("  %s::binary::%sReader* breader = nullptr;" % (ns, pname))
        out.append("  void make_reader(std::string const& fmt, std::istream& in) override {")
        out.append("    freader = nullptr;")
        out.append("    if (fmt == \"faulty\") { freader = new FR_%s(in); breader = freader; reader.reset(freader); } else" % pname)
        out.append("    if (fmt == \"binary\") { breader = new %s::binary::%sReader(in); reader.reset(breader); }" % (ns, pname))
        out.append("    else { breader = nullptr; reader.reset(new %s::ndjson::%sReader(in)); } }" % (ns, pname))
        out.append("  void make_writer(std::string const& fmt, std::ostream& out, std::string const& version) override {")
        out.append("    fwriter = nullptr;")
        out.append("    if (fmt == \"binary\" || fmt == \"faulty\") { %s::Version v = (version == \"same_as_reader\" && breader) ? breader->GetVersion() : parse_version(version);" % ns)
        out.append("      if (fmt == \"faulty\") { fwriter = new FW_%s(out, v); writer.reset(fwriter); } else" % pname)
        out.append("      writer.reset(new %s::binary::%sWriter(out, v)); }" % (ns, pname))
        out.append("    else writer.reset(new %s::ndjson::%sWriter(out)); }" % (ns, pname))
        nb = copyto[pname]
        args = "".join(", sizes.size() > %d ? sizes[%d] : 1" % (j, j) for j in range(nb))
        out.append("  void copy_to(std::vector<size_t> const& sizes) override { (void)sizes; reader->CopyTo(*writer%s); }" % args)
        out.append("  void copy_from(std::istream& in2, std::vector<size_t> const& sizes) override { (void)sizes; %s::binary::%sReader r2(in2); r2.CopyTo(*writer%s); r2.Close(); }" % (ns, pname, args))
        out.append("  void close_reader() override { reader->Close(); }")
        out.append("  void close_writer() override { writer->Close(); }")
        out.append("  void flush_writer() override { writer->Flush(); }")
        out.append("  void drop_reader() override { reader.reset(); breader = nullptr; freader = nullptr; }")
        out.append("  void drop_writer() override { writer.reset(); fwriter = nullptr; }")
        # read_one
        out.append("  bool read_one(int k) override { switch (k) {")
        for k, s in enumerate(steps):
            if s["stream"]:
                out.append("    case %d: { %s v; bool ok = reader->Read%s(v); if (ok) q%d.push_back(std::move(v)); return ok; }" % (k, s["type"], s["pascal"], k))
            else:
                out.append("    case %d: { %s v; reader->Read%s(v); q%d.push_back(std::move(v)); return true; }" % (k, s["type"], s["pascal"], k))
        out.append('    default: throw std::runtime_error("harness: bad step"); } }')
        out.append("  bool read_one_into_kept(int k) override { switch (k) {")
        for k, s in enumerate(steps):
            if s["stream"]:
                out.append("    case %d: { bool ok = reader->Read%s(kept%d); if (ok) q%d.push_back(kept%d); return ok; }" % (k, s["pascal"], k, k, k))
            else:
                out.append("    case %d: { reader->Read%s(kept%d); q%d.push_back(kept%d); return true; }" % (k, s["pascal"], k, k, k))
        out.append('    default: throw std::runtime_error("harness: bad step"); } }')
        out.append("  void clear_queues() override { %s }" % " ".join("q%d.clear();" % k for k in range(len(steps))))
        out.append("  bool read_batch(int k, size_t n, size_t& got) override { switch (k) {")
        for k, s in enumerate(steps):
            if s["stream"]:
                out.append("    case %d: { std::vector<%s> vs; vs.reserve(n); bool more = reader->Read%s(vs); got = vs.size(); for (auto& v : vs) q%d.push_back(std::move(v)); return more; }" % (k, s["type"], s["pascal"], k))
        out.append('    default: throw std::runtime_error("harness: not a stream step"); } }')
        out.append("  void write_one(int k) override { switch (k) {")
        for k, s in enumerate(steps):
            out.append("    case %d: { %s v = pop_front_or_default(q%d); writer->Write%s(v); return; }" % (k, s["type"], k, s["pascal"]))
        out.append('    default: throw std::runtime_error("harness: bad step"); } }')
        out.append("  void write_batch(int k, size_t n, size_t& put) override { switch (k) {")
        for k, s in enumerate(steps):
            if s["stream"]:
                out.append("    case %d: { std::vector<%s> vs; while (vs.size() < n && !q%d.empty()) { vs.push_back(std::move(q%d.front())); q%d.pop_front(); } put = vs.size(); writer->Write%s(vs); return; }" % (k, s["type"], k, k, k, s["pascal"]))
        out.append('    default: throw std::runtime_error("harness: not a stream step"); } }')
        out.append("  void end_stream(int k) override { switch (k) {")
        for k, s in enumerate(steps):
            if s["stream"]:
                out.append("    case %d: writer->End%s(); return;" % (k, s["pascal"]))
        out.append('    default: throw std::runtime_error("harness: not a stream step"); } }')
        out.append("};\n")
    out.append("static std::unique_ptr<HarnessBase> make_harness(std::string const& proto) {")
    for pname in protos:
        out.append('  if (proto == "%s") return std::make_unique<H_%s>();' % (pname, pname))
    out.append("  return nullptr;\n}\n")
    out.append(HARNESS_MAIN)
    return "\n".join(out)


def _limit_memory():
    """A node whose code under test asks for an absurd amount of memory (a length read from the wrong place) gets
    std::bad_alloc - an error it reports - instead of taking the machine down (the sandbox has no memory limit)."""
    import resource
    resource.setrlimit(resource.RLIMIT_AS, (6 << 30, 6 << 30))


def _unlimit_memory():
    """A sanitizer build reserves terabytes of address space for its shadow memory: the limit the worker process runs under
    (inherited by its children) has to go, or the harness dies before main."""
    import resource
    hard = resource.getrlimit(resource.RLIMIT_AS)[1]
    resource.setrlimit(resource.RLIMIT_AS, (hard, hard))


class CppModel:
    """Compiles the harness for the generated C++ in <modeldir>/out/cpp."""

    def __init__(self, modeldir: str, sanitize=False, jobs=5, opt="-O0"):
        self.cppdir = os.path.join(modeldir, "out", "cpp")
        with open(os.path.join(self.cppdir, "protocols.h")) as f:
            self.ns, self.versions, self.protos, self.copyto = parse_protocols_h(f.read())
        src = emit_harness(self.ns, self.versions, self.protos, self.copyto)
        with open(os.path.join(self.cppdir, "verif_harness_main.cc"), "w") as f:
            f.write(src)
        flags = ["-std=c++17", opt, "-w", "-ftrivial-auto-var-init=pattern", "-I" + self.cppdir, "-I" + SHIMS, "-I" + JSON_INC]
        if sanitize:
            flags += ["-fsanitize=address,undefined", "-fno-sanitize-recover=all", "-fno-omit-frame-pointer", "-g1"]
        self.sanitize = sanitize
        tus = ["types.cc", "protocols.cc", "binary/protocols.cc", "ndjson/protocols.cc", "verif_harness_main.cc"]
        objs = []

        def cc(tu):
            obj = os.path.join(self.cppdir, tu.replace("/", "_") + ".o")
            p = subprocess.run(["g++"] + flags + ["-c", tu, "-o", obj], cwd=self.cppdir, capture_output=True, text=True)
            return tu, obj, p

        with ThreadPoolExecutor(max_workers=jobs) as ex:
            for tu, obj, p in ex.map(cc, tus):
                if p.returncode != 0:
                    if tu == "verif_harness_main.cc":
                        raise HarnessTrouble("harness main does not compile:\n" + p.stderr[-3000:])
                    raise GeneratedCodeDoesNotCompile("%s: %s" % (tu, p.stderr[-1500:]))
                objs.append(obj)
        self.bin = os.path.join(self.cppdir, "verif_harness")
        p = subprocess.run(["g++"] + (["-fsanitize=address,undefined"] if sanitize else []) + objs + ["-o", self.bin], capture_output=True, text=True)
        if p.returncode != 0:
            raise HarnessTrouble("harness link failed:\n" + p.stderr[-3000:])
        self.n = 0

    def step_index(self, proto):
        return self.protos[proto]

    def run_plan(self, inputs, runs, timeout=120.0):
        """inputs: list of bytes; runs: list of dicts (id assigned here).  Returns list of results in order;
        a run that crashed the harness process yields {"crashed": True, "stderr": ...}."""
        for i, r in enumerate(runs):
            r["id"] = i
        d = tempfile.mkdtemp(prefix="plan-", dir=self.cppdir)
        try:
            plan = {"inputs": [b.hex() for b in inputs], "runs": runs}
            pp = os.path.join(d, "plan.json")
            with open(pp, "w") as f:
                json.dump(plan, f)
            results = [None] * len(runs)
            start = 0
            while start < len(runs):
                rp = os.path.join(d, "res-%d.jsonl" % start)
                plan2 = dict(plan, **{"from": start, "to": len(runs)})
                with open(pp, "w") as f:
                    json.dump(plan2, f)
                env = dict(os.environ, ASAN_OPTIONS="detect_leaks=0:abort_on_error=0:exitcode=99", UBSAN_OPTIONS="print_stacktrace=1:halt_on_error=1:exitcode=98")
                try:
                    # (a sanitizer build runs without address-space randomisation: with the kernel's 32 bits of mmap entropy the
                    #  fixed shadow-memory range of ASan collides with a mapping every few hundred process starts)
                    p = subprocess.run((["setarch", os.uname().machine, "-R"] if self.sanitize else []) + [self.bin, pp, rp], capture_output=True, text=True, timeout=timeout, env=env, preexec_fn=_unlimit_memory if self.sanitize else _limit_memory)
                    rc, err = p.returncode, p.stderr
                except subprocess.TimeoutExpired as e:
                    rc, err = -999, "timeout after %.0fs" % timeout
                done = 0
                if os.path.exists(rp):
                    with open(rp) as f:
                        for line in f:
                            line = line.strip()
                            if not line:
                                continue
                            try:
                                r = json.loads(line)
                            except json.JSONDecodeError:
                                break
                            if r.get("what_after_reader_gone") is not None:
                                # the exception's text changed when the reader and writer were destroyed: it lives in memory they owned
                                r.update(crashed=True, invalid_memory=True, rc=0, stderr="error report points into freed memory: what() gave %r while the reader existed and %r after it was destroyed"
                                         % (str(r.get("what"))[:120], str(r.get("what_after_reader_gone"))[:120]))
                            results[r["id"]] = r
                            done += 1
                self.n += done
                if rc == 0 and start + done >= len(runs):
                    break
                # the run after the last completed one killed (or hung) the process
                bad = start + done
                if bad >= len(runs):
                    break
                if "ReserveShadowMemoryRange failed" in (err or ""):
                    raise HarnessTrouble("the sanitizer build of the harness could not reserve its shadow memory (an address-space limit is in force): " + (err or "")[-300:])
                results[bad] = {"id": bad, "crashed": True, "rc": rc, "stderr": (err or "")[-3000:], "hang": rc == -999}
                start = bad + 1
            return results
        finally:
            shutil.rmtree(d, ignore_errors=True)
