"""Streamworld, Python nodes: generated Python readers/writers driven in-process on simulated
channels.  Real code: the package `yardl generate` emits (including the shipped _binary.py,
_ndjson.py, yardl_types.py), imported under numpy.  Nothing in it is patched; buffer boundaries
are reached by constructing the input.
"""
from __future__ import annotations

import datetime, time, importlib, io, os, shutil, subprocess, sys, tempfile, errno

import numpy as np

VERIF = os.path.dirname(os.path.dirname(os.path.abspath(__file__)))
sys.path.insert(0, VERIF)
from gen import model as M  # noqa: E402
from gen.model import Prim, Opt, Union, Vec, Arr, Map  # noqa: E402


class HarnessTrouble(Exception):
    pass


class GeneratorRejected(Exception):
    pass


def build_yardl(repo="/repo", outdir=None) -> str:
    """Build the yardl CLI from the working tree (plain `go build`, no instrumentation)."""
    outdir = outdir or tempfile.mkdtemp(prefix="yardl-bin-", dir=os.path.join(VERIF, "build"))
    out = os.path.join(outdir, "yardl")
    env = dict(os.environ, GOFLAGS="-mod=mod", GOPROXY="off", GOSUMDB="off", GOTOOLCHAIN="local", CGO_ENABLED="0")
    p = subprocess.run([os.environ.get("VERIF_GO", "go1.26.8"), "build", "-o", out, "./cmd/yardl"], cwd=os.path.join(repo, "tooling"),
                       env=env, capture_output=True, text=True)
    if p.returncode != 0:
        raise HarnessTrouble("cannot build yardl from %s:\n%s" % (repo, p.stderr[-3000:]))
    return out


# ----------------------------------------------------------------------------------------
# A generated model, imported
# ----------------------------------------------------------------------------------------

class PyModel:
    def __init__(self, pkg: M.Package, yardl_bin: str, workroot: str, want_cpp=False, cpp_opts=None):
        self.pkg = pkg
        self.env = M.Env(pkg)
        self._usable = None
        self.unusable = []
        self.dir = tempfile.mkdtemp(prefix="model-", dir=workroot)
        targets = {"python": {"outputDir": "../out/python"}}
        if want_cpp:
            targets["cpp"] = dict({"sourcesOutputDir": "../out/cpp", "generateHDF5": False, "generateCMakeLists": False}, **(cpp_opts or {}))
        pkg.targets = targets
        prev = getattr(pkg, "generated_over", None)
        if prev is not None:
            # the everyday history of an output directory: it holds what was generated from the previous state of the model
            # (another package object; the attribute travels with the pickled package into replay files)
            prev.targets = targets
            for path, text in M.render_tree(prev, self.dir).items():
                os.makedirs(os.path.dirname(path), exist_ok=True)
                with open(path, "w") as f:
                    f.write(text)
            subprocess.run([yardl_bin, "generate"], cwd=os.path.join(self.dir, prev.dirname), capture_output=True, text=True)
            for name in os.listdir(self.dir):
                if name != "out":
                    shutil.rmtree(os.path.join(self.dir, name), ignore_errors=True)
        for path, text in M.render_tree(pkg, self.dir).items():
            os.makedirs(os.path.dirname(path), exist_ok=True)
            with open(path, "w") as f:
                f.write(text)
        env = None
        if getattr(pkg, "versions_from_git", False) and pkg.versions:
            env = self._versions_into_git(pkg)
        p = subprocess.run([yardl_bin, "generate"], cwd=os.path.join(self.dir, pkg.dirname), capture_output=True, text=True, env=env)
        if p.returncode != 0:
            shutil.rmtree(self.dir, ignore_errors=True)
            raise GeneratorRejected(p.stderr[-800:])
        self.modname = pkg.namespace.lower()
        self.pydir = os.path.join(self.dir, "out", "python")
        self._purge()
        # the time zone of the process that imports and runs the generated Python code (module-level constants of the
        # runtime are computed at import): a property of the deployment, chosen per model, UTC unless the workload says otherwise
        os.environ["TZ"] = getattr(pkg, "process_tz", None) or "UTC"
        time.tzset()
        sys.path.insert(0, self.pydir)
        try:
            self.mod = importlib.import_module(self.modname)
        except Exception as e:  # generated code that does not import is C08 (not claimed): discard
            sys.path.remove(self.pydir)
            shutil.rmtree(self.dir, ignore_errors=True)
            raise GeneratorRejected("generated python does not import: %r" % (e,))
        finally:
            if self.pydir in sys.path:
                sys.path.remove(self.pydir)

    def _versions_into_git(self, pkg):
        """The previous versions become commits of one repository (each release a commit of the same `model` directory) and
        the manifest names them by URL with ?ref=<commit>&dir=model, as docs/packages describes; the directories themselves
        are removed.  https://git.example.invalid/... is mapped to the local repository with git's url.<path>.insteadOf, and
        HOME is a scratch directory so that yardl's clone cache starts empty and goes away with the model.  Returns the
        environment for yardl."""
        repo = os.path.join(self.dir, "releases")
        home = os.path.join(self.dir, "home")
        os.makedirs(repo)
        os.makedirs(home)
        cfg = os.path.join(self.dir, "gitconfig")
        url = "https://git.example.invalid/acme/models"
        with open(cfg, "w") as f:
            f.write('[url "%s"]\n\tinsteadOf = %s\n[safe]\n\tdirectory = *\n[advice]\n\tdetachedHead = false\n[init]\n\tdefaultBranch = main\n' % (repo, url))
        env = dict(os.environ, HOME=home, GIT_CONFIG_GLOBAL=cfg, GIT_CONFIG_NOSYSTEM="1", GIT_AUTHOR_NAME="r", GIT_AUTHOR_EMAIL="r@example.invalid",
                   GIT_COMMITTER_NAME="r", GIT_COMMITTER_EMAIL="r@example.invalid", GIT_AUTHOR_DATE="2020-01-01T00:00:00Z", GIT_COMMITTER_DATE="2020-01-01T00:00:00Z")

        def git(*a):
            return subprocess.run(["git", "-C", repo] + list(a), capture_output=True, text=True, env=env, check=True).stdout.strip()
        git("init", "-q")
        man = os.path.join(self.dir, pkg.dirname, "_package.yml")
        text = open(man).read()
        # releases in the order they were made (labels v0, v1, ... whatever the order of the manifest)
        for label, old in sorted(pkg.versions, key=lambda lv: (len(lv[0]), lv[0])):
            src = os.path.join(self.dir, old.dirname)
            dst = os.path.join(repo, "model")
            shutil.rmtree(dst, ignore_errors=True)
            shutil.copytree(src, dst)
            git("add", "-A")
            git("commit", "-q", "--allow-empty", "-m", "release " + label)
            commit = git("rev-parse", "HEAD")
            rel = os.path.relpath(src, os.path.join(self.dir, pkg.dirname))
            assert rel in text, (rel, text)
            text = text.replace(rel, '"%s?ref=%s&dir=model"' % (url, commit), 1)
            shutil.rmtree(src)
        with open(man, "w") as f:
            f.write(text)
        return env

    def _purge(self):
        for name in [n for n in sys.modules if n == self.modname or n.startswith(self.modname + ".")]:
            del sys.modules[name]

    def close(self):
        self._purge()
        shutil.rmtree(self.dir, ignore_errors=True)

    def protocols(self):
        """Protocols whose generated Python is usable at all.  Generated code that imports but whose
        serializer/converter tables reference undefined names (NameError / AttributeError on a class /
        ImportError when first used) is a code-generation defect of the kind property C08 covers (not
        claimed); such protocols are discarded and counted, like packages that do not import."""
        if self._usable is None:
            from gen import values as V, refcodec as R
            self._usable, self.unusable = [], []
            codec = R.Codec(self.env)
            for d in self.pkg.defs():
                if not isinstance(d, M.Protocol):
                    continue
                rng = M.derive(12345, "smoke", d.name)
                vg = V.ValueGen(self.env, rng, finite_only=True, json_safe=True)
                vals = []
                for name, t, stream in d.steps:
                    qt = M.qualify(t, self.pkg.namespace)
                    vals.append([vg.gen(qt)] if stream else vg.gen(qt))
                why = None
                try:
                    data = codec.encode_stream(d, self.pkg.namespace, self.schema(d), vals)
                    for fmt in ("binary", "ndjson"):
                        out, err = relay(self, d, "binary", io.BytesIO(data), fmt)
                        if isinstance(err, (NameError, ImportError)) or (isinstance(err, AttributeError) and "has no attribute" in str(err) and "type object" in str(err)) \
                                or (isinstance(err, TypeError) and "TypeVar" in str(err)):
                            why = repr(err)
                            break
                except (NameError, ImportError, AttributeError) as e:
                    why = repr(e)
                if why:
                    self.unusable.append((d.name, why[:200]))
                else:
                    self._usable.append(d)
        return self._usable

    def schema(self, proto: M.Protocol) -> str:
        return getattr(self.mod, proto.name + "WriterBase").schema

    def cls(self, proto: M.Protocol, fmt: str, role: str):
        return getattr(self.mod, ("Binary" if fmt == "binary" else "NDJson") + proto.name + role)

    def step_methods(self, obj, prefix: str):
        """Public step methods in ordinal order, found through their 'Ordinal N' docstrings."""
        out = {}
        for name in dir(type(obj)):
            if not name.startswith(prefix):
                continue
            doc = getattr(type(obj), name).__doc__ or ""
            if doc.strip().startswith("Ordinal "):
                out[int(doc.strip().split()[1])] = getattr(obj, name)
        return [out[i] for i in sorted(out)]

    def _subarray_shape(self, t):
        """shape that an array element of type t contributes as trailing axes (fixed vectors and fixed arrays), else ()"""
        r = self.env.resolve(t)
        if isinstance(r, Vec) and r.length is not None:
            return (r.length,) + self._subarray_shape(r.inner)
        if isinstance(r, Arr) and isinstance(r.dims, tuple) and all(l is not None for _, l in r.dims):
            return tuple(l for _, l in r.dims) + self._subarray_shape(r.inner)
        return ()

    # ---- python value -> neutral ----
    def neutral(self, t, v):
        res = self.env.resolve(t)
        if isinstance(res, tuple):
            if res[0] == "record":
                fields = self.env.record_fields(res)
                if isinstance(v, np.void):          # element of a structured array: fields by position
                    attrs = [v[nm] for nm in v.dtype.names]
                else:
                    attrs = [a for k, a in vars(v).items() if not k.startswith("__")]
                if len(attrs) != len(fields):
                    raise HarnessTrouble("record %s: %d attributes for %d fields" % (res[1].name, len(attrs), len(fields)))
                return {n: self.neutral(ft, a) for (n, ft), a in zip(fields, attrs)}
            if isinstance(v, (int, np.integer)) and not hasattr(v, "value"):
                return int(v)
            return int(v.value)
        t = res
        if isinstance(t, Prim):
            n = t.name
            if n == "bool":
                return bool(v)
            if n in M.INT_RANGE:
                return int(v)
            if n in ("float32", "float64"):
                return float(v)
            if n in ("complexfloat32", "complexfloat64"):
                c = complex(v)
                return (c.real, c.imag)
            if n == "string":
                return str(v)
            if n == "date":
                if isinstance(v, np.datetime64):
                    return int(v.astype("datetime64[D]").astype(np.int64))
                return (v - datetime.date(1970, 1, 1)).days
            if n == "time":
                if isinstance(v, np.timedelta64):
                    return int(v.astype("timedelta64[ns]").astype(np.int64))
                return int(v.numpy_value.astype(np.int64))
            if n == "datetime":
                if isinstance(v, np.datetime64):
                    return int(v.astype("datetime64[ns]").astype(np.int64))
                return int(v.numpy_value.astype(np.int64))
        if isinstance(t, Opt):
            if isinstance(v, np.void) and v.dtype.names == ("has_value", "value"):     # element of an array of optionals
                return self.neutral(t.inner, v["value"]) if bool(v["has_value"]) else None
            return None if v is None else self.neutral(t.inner, v)
        if isinstance(t, Union):
            if v is None:
                return None
            tag = v.tag
            for i, (tg, ct) in enumerate(t.cases):
                if tg == tag:
                    return ("u", i, self.neutral(ct, v.value))
            raise HarnessTrouble("union tag %r not among %r" % (tag, [tg for tg, _ in t.cases]))
        if isinstance(t, Vec):
            return [self.neutral(t.inner, x) for x in v]
        if isinstance(t, Arr):
            a = np.asarray(v)
            sub = self._subarray_shape(t.inner)
            if sub and a.dtype != object:
                # elements that are fixed vectors / fixed arrays of numbers live in trailing axes of the NumPy array
                outer = a.shape[:a.ndim - len(sub)]
                flat = a.reshape((-1,) + tuple(a.shape[a.ndim - len(sub):]))
                return ("a", tuple(int(s) for s in outer), [self.neutral(t.inner, x) for x in flat])
            return ("a", tuple(int(s) for s in a.shape), [self.neutral(t.inner, x) for x in a.reshape(-1)])
        if isinstance(t, Map):
            return [(self.neutral(t.key, k), self.neutral(t.value, x)) for k, x in v.items()]
        raise TypeError(t)


# ----------------------------------------------------------------------------------------
# Simulated channel
# ----------------------------------------------------------------------------------------

class SimRaw(io.RawIOBase):
    """Read side of the channel: delivers `data` in chunks of seeded sizes; EOF after len(data)."""

    def __init__(self, data: bytes, chunker=None):
        super().__init__()
        self.data = data
        self.pos = 0
        self.chunker = chunker
        self.reads = 0

    def readable(self):
        return True

    def readinto(self, b):
        n = min(len(b), len(self.data) - self.pos)
        if n > 0 and self.chunker is not None:
            n = max(1, min(n, self.chunker()))
        b[:n] = self.data[self.pos:self.pos + n]
        self.pos += n
        self.reads += 1
        return n


class SimSink(io.RawIOBase):
    """Write side: records every write with its offset; optional write error after `fail_at` bytes."""

    def __init__(self, fail_at=None, err=errno.ENOSPC):
        super().__init__()
        self.buf = bytearray()
        self.fail_at = fail_at
        self.err = err
        self.writes = []
        self.failed = False

    def writable(self):
        return True

    def write(self, b):
        b = bytes(b)
        if self.fail_at is not None and len(self.buf) + len(b) > self.fail_at:
            keep = max(0, self.fail_at - len(self.buf))
            self.buf += b[:keep]
            self.failed = True
            raise OSError(self.err, os.strerror(self.err))
        self.writes.append((len(self.buf), len(b)))
        self.buf += b
        return len(b)

    def flush(self):
        pass


def make_chunker(rng, mode):
    if mode == "whole":
        return None
    if mode == "bytewise":
        return lambda: 1
    if mode == "small":
        return lambda: rng.randint(1, 7)
    return lambda: rng.choice([1, 2, 3, 5, 64, 1000, 4096, 8192, 65536, 65537])


def binary_input(data: bytes, rng=None, mode="whole"):
    """A binary input stream as a user would hand it to the generated reader."""
    if mode == "whole" and (rng is None or rng.chance(0.5)):
        return io.BytesIO(data)
    return SimRaw(data, make_chunker(rng, mode))   # CodedInputStream wraps non-buffered streams in BufferedReader itself


def fifo_path_input(data: bytes, rng, workdir: str) -> str:
    """The stream as a named pipe that a producer fills in pieces of seeded sizes (with a breath between them, so that
    a read finds less than it asked for); the reader is given the *path name* and opens it itself.  This channel is a
    real one - how the pieces arrive is up to the kernel and the scheduler - so it can only make a defect show or not
    show; code that is right reads the same values however they arrive.  The caller unlinks the path."""
    import threading, time as _time
    path = tempfile.mktemp(prefix="fifo-", dir=workdir)
    os.mkfifo(path)
    sizes = [rng.choice([1, 3, 64, 997, 4099, 65536, 70001]) for _ in range(64)] if rng is not None else [4096]

    def feed():
        fd = None
        try:
            t0 = _time.time()
            while fd is None and _time.time() - t0 < 10:
                try:
                    fd = os.open(path, os.O_WRONLY | os.O_NONBLOCK)
                except OSError as e:
                    if e.errno != errno.ENXIO:
                        return
                    _time.sleep(0.002)
            if fd is None:
                return
            os.set_blocking(fd, True)
            pos, j = 0, 0
            while pos < len(data):
                k = sizes[j % len(sizes)]
                j += 1
                os.write(fd, data[pos:pos + k])
                pos += k
                _time.sleep(0.0003)
        except OSError:
            pass                      # the reader went away
        finally:
            if fd is not None:
                try:
                    os.close(fd)
                except OSError:
                    pass
    threading.Thread(target=feed, daemon=True).start()
    return path


def text_input(text: str, rng=None, mode="whole"):
    raw = SimRaw(text.encode("utf-8"), make_chunker(rng, mode) if rng else None)
    return io.TextIOWrapper(io.BufferedReader(raw), encoding="utf-8", newline="\n")


def text_input_bytes(raw_bytes: bytes):
    """A text stream over possibly truncated UTF-8 bytes, as open(path, encoding='utf-8') would give."""
    return io.TextIOWrapper(io.BytesIO(raw_bytes), encoding="utf-8", newline="\n")


# ----------------------------------------------------------------------------------------
# Operations
# ----------------------------------------------------------------------------------------

def read_all(model: PyModel, proto: M.Protocol, fmt: str, stream, batch_hint=None, collect=False, lenient=False):
    """Drive the generated reader over every step in order.  Returns (delivered, error, closed):
    delivered = [(step index, neutral value)], error = exception or None, closed = close() succeeded.
    collect=True keeps all items of a stream step (`items = list(reader.read_x())`) and only looks at them
    after the step is exhausted, as a caller that gathers a stream into a list does."""
    delivered = []
    ns = model.pkg.namespace
    try:
        # (lenient: the documented reader option skip_completed_check=True - close() then does not insist that every step was
        #  read, so what a cut stream lacks has to be reported by the reads themselves)
        reader = model.cls(proto, fmt, "Reader")(stream, skip_completed_check=True) if lenient else model.cls(proto, fmt, "Reader")(stream)
    except Exception as e:  # noqa
        return delivered, e, False
    try:
        meths = model.step_methods(reader, "read_")
        for i, (name, t, is_stream) in enumerate(proto.steps):
            qt = M.qualify(t, ns)
            if is_stream and collect:
                items = list(meths[i]())
                for item in items:
                    delivered.append((i, model.neutral(qt, item)))
            elif is_stream:
                for item in meths[i]():
                    delivered.append((i, model.neutral(qt, item)))
            else:
                delivered.append((i, model.neutral(qt, meths[i]())))
    except HarnessTrouble:
        raise
    except Exception as e:  # noqa
        try:
            reader._close()
        except Exception:
            pass
        return delivered, e, False
    try:
        reader.close()
    except Exception as e:  # noqa
        return delivered, e, False
    return delivered, None, True


def relay(model: PyModel, proto: M.Protocol, in_fmt: str, stream, out_fmt: str, sink=None):
    """reader.copy_to(writer).  Returns (output bytes/text, error)."""
    if out_fmt == "binary":
        sink = sink or SimSink()
        out = sink
    else:
        out = io.StringIO()
    try:
        reader = model.cls(proto, in_fmt, "Reader")(stream)
    except Exception as e:  # noqa
        return None, e
    try:
        writer = model.cls(proto, out_fmt, "Writer")(out)
    except Exception as e:  # noqa
        return None, e
    try:
        reader.copy_to(writer)
        writer.close()
        reader.close()
    except Exception as e:  # noqa
        return (bytes(out.buf) if out_fmt == "binary" else out.getvalue()), e
    return (bytes(out.buf) if out_fmt == "binary" else out.getvalue()), None


def perturb_representation(model: PyModel, t, v, rng, stats=None, fmt="binary"):
    """The same logical value in another in-memory representation that the Python API equally accepts: arrays in
    Fortran order, as transposed / strided / reversed views of other arrays; dicts built in another insertion order.
    Records are changed in place, field by field."""
    res = model.env.resolve(t)
    if isinstance(res, tuple):
        if res[0] == "record":
            fields = model.env.record_fields(res)
            keys = [k for k in vars(v) if not k.startswith("__")]
            if len(keys) == len(fields):
                for (n, ft), k in zip(fields, keys):
                    setattr(v, k, perturb_representation(model, ft, getattr(v, k), rng, stats, fmt))
        return v
    t = res
    if isinstance(t, Opt):
        return None if v is None else perturb_representation(model, t.inner, v, rng, stats, fmt)
    if isinstance(t, Vec):
        if isinstance(v, list):
            return [perturb_representation(model, t.inner, x, rng, stats, fmt) for x in v]
        return v
    if isinstance(t, Map) and isinstance(v, dict):
        items = [(k, perturb_representation(model, t.value, x, rng, stats, fmt)) for k, x in v.items()]
        rng.shuffle(items)
        return dict(items)
    if isinstance(t, M.Prim) and t.name in ("datetime", "time", "date") and rng.chance(0.6):
        # the other types the API takes for dates and times: the standard library's and NumPy's
        import datetime as _dt
        try:
            if t.name == "datetime" and hasattr(v, "numpy_value"):
                ns = int(v.numpy_value.astype("datetime64[ns]").astype(np.int64))
                if abs(ns) < 2 * 10 ** 18 and rng.fork("from-components").chance(0.3) and hasattr(type(v), "from_components"):
                    # the value built anew from its calendar components with the constructor the class offers for that
                    # ("a basic datetime with nanosecond precision, always in UTC")
                    d_ = _dt.datetime(1970, 1, 1) + _dt.timedelta(seconds=ns // 10 ** 9)
                    if stats is not None:
                        stats["py_datetime_built_with_from_components"] = stats.get("py_datetime_built_with_from_components", 0) + 1
                    return type(v).from_components(d_.year, d_.month, d_.day, d_.hour, d_.minute, d_.second, ns % 10 ** 9)
                if ns % 1000 == 0 and abs(ns) < 2 * 10 ** 18 and rng.chance(0.7):
                    if stats is not None:
                        stats["py_datetime_as_datetime.datetime"] = stats.get("py_datetime_as_datetime.datetime", 0) + 1
                    # (the NDJSON form of an aware datetime carries "+00:00"; the plain one is used there)
                    if fmt != "binary" and (getattr(model.pkg, "process_tz", None) or "UTC") != "UTC":
                        return v      # (a naive datetime means local time: only in UTC is it the same instant)
                    return _dt.datetime(1970, 1, 1, tzinfo=_dt.timezone.utc if fmt == "binary" else None) + _dt.timedelta(microseconds=ns // 1000)
                if fmt == "binary":
                    for unit_, div_ in (("s", 10 ** 9), ("ms", 10 ** 6), ("us", 1000)):
                        if ns % div_ == 0 and rng.fork("unit").chance(0.7):
                            if stats is not None:
                                stats["py_datetime_as_numpy_scalar_with_unit_" + unit_] = stats.get("py_datetime_as_numpy_scalar_with_unit_" + unit_, 0) + 1
                            return np.datetime64(ns // div_, unit_)
                return np.datetime64(ns, "ns") if fmt == "binary" else v      # (NumPy scalars: the binary serializers take them, to_json does not)
            if t.name == "time" and hasattr(v, "numpy_value"):
                ns = int(v.numpy_value.astype("timedelta64[ns]").astype(np.int64))
                if ns % 1000 == 0 and 0 <= ns < 86400 * 10 ** 9 and rng.chance(0.7):
                    us = ns // 1000
                    if stats is not None:
                        stats["py_time_as_datetime.time"] = stats.get("py_time_as_datetime.time", 0) + 1
                    return _dt.time(us // 3600000000, us // 60000000 % 60, us // 1000000 % 60, us % 1000000)
                if fmt == "binary":
                    # a NumPy scalar in the coarsest unit that holds the value exactly (what np.timedelta64(5, "s") is)
                    for unit_, div_ in (("s", 10 ** 9), ("ms", 10 ** 6), ("us", 1000)):
                        if ns % div_ == 0 and rng.fork("unit").chance(0.7):
                            if stats is not None:
                                stats["py_time_as_numpy_scalar_with_unit_" + unit_] = stats.get("py_time_as_numpy_scalar_with_unit_" + unit_, 0) + 1
                            return np.timedelta64(ns // div_, unit_)
                return np.timedelta64(ns, "ns") if fmt == "binary" else v
            if t.name == "date" and isinstance(v, _dt.date) and fmt == "binary":
                return np.datetime64(v.isoformat(), "D")
        except (OverflowError, ValueError):
            return v
        return v
    if isinstance(t, Arr) and isinstance(v, np.ndarray) and v.dtype.names and isinstance(t.inner, M.Named) and not t.inner.args \
            and (t.inner.ns is None or t.inner.ns == model.pkg.namespace) and rng.fork("documented-dtype").chance(0.5):
        # an array of records in the dtype that the generated module's get_dtype() documents for the record (how a user builds
        # such an array), packed as well as aligned, instead of the dtype the reader happened to hand out
        cls_ = getattr(model.mod, t.inner.name, None)
        if cls_ is not None and hasattr(model.mod, "get_dtype"):
            try:
                dt_ = model.mod.get_dtype(cls_)
            except Exception:  # noqa  (not a type get_dtype knows: leave the array as it is)
                dt_ = None
            if dt_ is not None and dt_.names == v.dtype.names:
                if rng.fork("packed").chance(0.3):
                    from numpy.lib import recfunctions as _rf
                    dt_ = _rf.repack_fields(dt_, align=False, recurse=True)
                if stats is not None:
                    k_ = "py_record_array_in_the_dtype_get_dtype_documents" + ("" if dt_ == v.dtype else "(differs from what the reader hands out)")
                    stats[k_] = stats.get(k_, 0) + 1
                w_ = np.empty(v.shape, dtype=dt_)
                w_[...] = v
                return w_
    if isinstance(t, Arr) and isinstance(v, np.ndarray) and v.size > 0 and v.ndim >= 1 and v.dtype != object:
        how = rng.choice(["fortran", "transposed_view", "strided_view", "reversed_view", "as_is"] if v.ndim >= 2 else ["strided_view", "reversed_view", "as_is"])
        if stats is not None:
            stats["py_array_layout_" + how] = stats.get("py_array_layout_" + how, 0) + 1
        if how == "fortran":
            return np.asfortranarray(v)
        if how == "transposed_view":
            return np.ascontiguousarray(v.T).T
        if how == "strided_view":
            big = np.zeros(v.shape[:-1] + (v.shape[-1] * 2,), dtype=v.dtype)
            big[..., ::2] = v
            return big[..., ::2]
        if how == "reversed_view":
            return np.ascontiguousarray(v[::-1])[::-1]
    return v


def reusing(chunk, after):
    """A producer that keeps one object per kind of item, refills it in place for each item and hands the same object
    over again (one acquisition buffer, one record instance updated per sample) — and scribbles over it once the
    consumer has come back for the next item. What the consumer was handed is the content at hand-over."""
    import copy
    import enum
    import numpy as np
    buf = None
    for x in chunk:
        same = buf is not None and type(buf) is type(x)
        if same and isinstance(x, np.ndarray) and x.ndim >= 1 and x.shape == buf.shape and x.dtype == buf.dtype and x.dtype != object:
            buf[...] = x
        elif same and isinstance(x, list):
            buf[:] = x
        elif same and isinstance(x, dict):
            buf.clear()
            buf.update(x)
        elif same and hasattr(x, "__dict__") and not isinstance(x, (enum.Enum, type)):
            buf.__dict__.clear()
            buf.__dict__.update(x.__dict__)
        elif isinstance(x, (np.ndarray, list, dict)) or (hasattr(x, "__dict__") and not isinstance(x, (enum.Enum, type))):
            buf = copy.copy(x)
        else:
            buf = None
            yield x
            continue
        after[0] += 1
        yield buf


def rewrite(model: PyModel, proto: M.Protocol, data: bytes, out_fmt: str, rng, stats=None):
    """Read every step into Python objects with the generated binary reader, put the values into another in-memory
    representation, and write them with a fresh generated writer (one call per step).  Returns (output, error)."""
    try:
        pyvals = read_python_values(model, proto, data)
    except Exception as e:  # noqa
        return None, e
    out = SimSink() if out_fmt == "binary" else io.StringIO()
    try:
        ns = model.pkg.namespace
        for i, (name, t, is_stream) in enumerate(proto.steps):
            qt = M.qualify(t, ns)
            if is_stream:
                pyvals[i] = [perturb_representation(model, qt, x, rng, stats, out_fmt) for x in pyvals[i]]
            else:
                pyvals[i] = perturb_representation(model, qt, pyvals[i], rng, stats, out_fmt)
        w = model.cls(proto, out_fmt, "Writer")(out)
        meths = model.step_methods(w, "write_")
        for i in range(len(proto.steps)):
            if proto.steps[i][2] and len(pyvals[i]) >= 2:
                # how the producer hands the items of a stream over: a list, a generator, or a generator that refills and
                # re-yields one object (an acquisition loop without allocations) - each item is what it held at hand-over
                how = rng.fork("handover", i).weighted([("list", 5), ("generator", 2), ("reusing", 3)])
                if stats is not None:
                    stats["py_stream_handed_over_as_" + how] = stats.get("py_stream_handed_over_as_" + how, 0) + 1
                if how == "generator":
                    meths[i](x for x in pyvals[i])
                    continue
                if how == "reusing":
                    meths[i](reusing(pyvals[i], [0]))
                    continue
            meths[i](pyvals[i])
        w.close()
    except Exception as e:  # noqa
        return (bytes(out.buf) if out_fmt == "binary" else out.getvalue()), e
    return (bytes(out.buf) if out_fmt == "binary" else out.getvalue()), None


def read_python_values(model: PyModel, proto: M.Protocol, data: bytes):
    """Python-object values of every step (lists for streams), read with the generated binary reader
    from a reference-encoded stream; used as inputs for writer histories."""
    reader = model.cls(proto, "binary", "Reader")(io.BytesIO(data))
    meths = model.step_methods(reader, "read_")
    out = []
    for i, (name, t, is_stream) in enumerate(proto.steps):
        out.append(list(meths[i]()) if is_stream else meths[i]())
    reader.close()
    return out
