"""Round-trip and portability pipelines shared by C01 (binary), C02 (NDJSON) and C03 (cross
language / cross format).  Nodes: Python reader/writer/relay in-process, C++ relay in the harness
binary, joined by the simulated channel; oracle: the independent reference codec."""
from __future__ import annotations

import io, os, json, os, sys

VERIF = os.path.dirname(os.path.dirname(os.path.abspath(__file__)))
sys.path.insert(0, VERIF)
from gen import model as M, values as V, refcodec as R  # noqa: E402
from streamworld import sw, pynode as P, cppnode as C, runner  # noqa: E402


def uses_prim(env, pkg, proto, names) -> bool:
    """Does the protocol (transitively) use one of the primitive types in names?"""
    seen = set()

    def walk(t):
        res = env.resolve(t)
        key = repr(res)[:400]
        if key in seen:
            return False
        seen.add(key)
        if isinstance(res, tuple):
            if res[0] == "record":
                return any(walk(ft) for _, ft in env.record_fields(res))
            return (res[1].base or "int32") in names
        if isinstance(res, M.Prim):
            return res.name in names
        if isinstance(res, M.Opt):
            return walk(res.inner)
        if isinstance(res, M.Union):
            return any(walk(c) for _, c in res.cases)
        if isinstance(res, (M.Vec, M.Arr)):
            return walk(res.inner)
        if isinstance(res, M.Map):
            return walk(res.key) or walk(res.value)
        return False

    return any(walk(M.qualify(t, pkg.namespace)) for _, t, _ in proto.steps)


def decode_flat(codec, proto, ns, schema, out, fmt):
    if fmt == "binary":
        v, parts, _ = codec.decode_stream(proto, ns, out, schema)
        return sw.flat_values(proto, v), parts
    text = out if isinstance(out, str) else out.decode("utf-8")
    return sw.flat_values(proto, codec.decode_ndjson(proto, ns, text, schema)), None


def _walk_unions(env, t, ns, on_union, seen):
    """Calls on_union(key, tags) for every union that a value of the closed type t (spelled in namespace ns) can contain; generic
    definitions are entered with their type arguments substituted (a union over a type parameter is a different C++ type for
    every instantiation, and the same type as any other union of those case types)."""
    if isinstance(t, M.Union):
        on_union(repr((tuple(M.qualify(c, ns) for _, c in t.cases), t.nullable)), tuple(tag for tag, _ in t.cases))
        for _, c in t.cases:
            _walk_unions(env, c, ns, on_union, seen)
    elif isinstance(t, M.Opt):
        _walk_unions(env, t.inner, ns, on_union, seen)
    elif isinstance(t, (M.Vec, M.Arr)):
        _walk_unions(env, t.inner, ns, on_union, seen)
    elif isinstance(t, M.Map):
        _walk_unions(env, t.key, ns, on_union, seen)
        _walk_unions(env, t.value, ns, on_union, seen)
    elif isinstance(t, M.Named):
        tns = t.ns or ns
        args = tuple(M.qualify(a, ns) for a in t.args)
        for a in t.args:
            _walk_unions(env, a, ns, on_union, seen)
        d = env.by_ns[tns].find(t.name) if tns in env.by_ns else None
        if d is None or repr((tns, t.name, args)) in seen or any(isinstance(x, M.TParam) for x in _flat_types(args)):
            return
        seen.add(repr((tns, t.name, args)))
        sub = dict(zip(getattr(d, "params", ()) or (), args))
        if isinstance(d, M.Record):
            for _, ft in d.fields:
                _walk_unions(env, M.substitute(M.qualify(ft, tns), sub), tns, on_union, seen)
        elif isinstance(d, M.Alias):
            _walk_unions(env, M.substitute(M.qualify(d.type, tns), sub), tns, on_union, seen)


def _flat_types(ts):
    for t in ts:
        yield t
        if isinstance(t, M.Named):
            yield from _flat_types(t.args)
        elif isinstance(t, (M.Opt, M.Vec, M.Arr)):
            yield from _flat_types((t.inner,))
        elif isinstance(t, M.Map):
            yield from _flat_types((t.key, t.value))
        elif isinstance(t, M.Union):
            yield from _flat_types(tuple(c for _, c in t.cases))


def unions_sharing_case_types(pkg):
    """{case-type list (as text): set of tag tuples} for the unions of a package tree whose case types (and null option) are
    the same while their tags differ - one C++ type, and so one nlohmann serializer, for unions the model tells apart.  Generic
    definitions count with the type arguments they are used with anywhere in the tree."""
    found = {}
    env = M.Env(pkg)
    seen = set()

    def on_union(key, tags):
        found.setdefault(key, set()).add(tags)

    for p in pkg.all_packages():
        for d in p.defs():
            if getattr(d, "params", None):
                continue          # (entered through its uses, with the arguments given there)
            if isinstance(d, M.Record):
                for _, ft in d.fields:
                    _walk_unions(env, ft, p.namespace, on_union, seen)
            elif isinstance(d, M.Alias):
                _walk_unions(env, d.type, p.namespace, on_union, seen)
            elif isinstance(d, M.Protocol):
                for _, st, _ in d.steps:
                    _walk_unions(env, st, p.namespace, on_union, seen)
    return {k: v for k, v in found.items() if len(v) > 1}


def _union_keys_reached(pkg, t):
    """keys (as in unions_sharing_case_types) of the unions that a value of type t (of the main package) can contain"""
    keys = set()
    _walk_unions(M.Env(pkg), t, pkg.namespace, lambda key, tags: keys.add(key), set())
    return keys


class Ctx:
    def __init__(self, prop, model, cm, task, stats, viols):
        self.prop, self.model, self.cm, self.task, self.stats, self.viols = prop, model, cm, task, stats, viols
        self.env, self.ns = model.env, model.pkg.namespace
        self.codec = R.Codec(self.env)
        self.last_collect = None

    def bump(self, k, n=1):
        self.stats[k] = self.stats.get(k, 0) + n

    def decoy(self, proto):
        """What another protocol of the same model leaves behind in a process: (inputs, runs) that relay a small stream of
        that protocol binary -> NDJSON and NDJSON -> binary before the run under test, in the same harness process - so that
        writers and readers of a different protocol have been built and used there already.  None if the model has no other
        protocol (or its small stream cannot be made)."""
        if not hasattr(self, "_decoys"):
            self._decoys = {}
        if proto.name not in self._decoys:
            res = None
            try:
                others = [p for p in self.model.protocols() if p.name != proto.name and p.name in self.cm.copyto]
                if others:
                    o = others[len(proto.name) % len(others)]
                    dr = M.derive(1234, "decoy", o.name)
                    ovals = sw.gen_values(self.env, self.ns, o, dr, finite=True, items=(1, 2))
                    osch = self.model.schema(o)
                    ob = self.codec.encode_stream(o, self.ns, osch, ovals)
                    oj = self.codec.encode_ndjson(o, self.ns, osch, ovals).encode("utf-8")
                    nb = self.cm.copyto[o.name]
                    res = ([ob, oj], [{"proto": o.name, "op": "relay", "in_fmt": "binary", "out_fmt": "ndjson", "input": 1, "batch": [1] * nb},
                                      {"proto": o.name, "op": "relay", "in_fmt": "ndjson", "out_fmt": "binary", "input": 2, "batch": [1] * nb}])
            except Exception:  # noqa  (no decoy then)
                res = None
            self._decoys[proto.name] = res
        return self._decoys[proto.name]

    def violation(self, rec, proto, vals, parts, pipeline, detail, extra=None):
        d = {"kind": "roundtrip", "prop": self.prop, "pkg": sw.pack_pkg(self.model.pkg), "files": M.render_tree(self.model.pkg, ""), "protocol": proto.name,
             "values": sw.pack(vals), "partitions": sw.pack(parts), "pipeline": pipeline, "detail": detail[:700], "seed": self.task["seed"],
             "model_index": self.task["i"], "values_repr": repr(vals)[:1500]}
        d.update(extra or {})
        # identification of a recorded finding (known_findings.json): the model tells two unions apart by their tags only,
        # a C++ NDJSON hop is involved, and the complaint names one of those tags or a step whose type contains such a union
        if any(h.startswith("cpp.") and "j" in h[4:] for h in pipeline.split(">")):
            clash = unions_sharing_case_types(self.model.pkg)
            if clash:
                import re
                tags = {t for v in clash.values() for tup in v for t in tup}
                m = re.search(r"\(step (\w+)\)", detail)
                mt = re.search(r"unknown union tag (\w+)", detail)
                hit = bool(mt and mt.group(1) in tags) or any(q in tags for q in re.findall(r"'(\w+)'", detail))
                if m and not hit:
                    st = [t for n, t, _ in proto.steps if n == m.group(1)]
                    if st:
                        hit = any(k in clash for k in _union_keys_reached(self.model.pkg, st[0]))
                if hit:
                    rec = dict(rec, cause="cpp_ndjson_one_serializer_for_unions_that_differ_in_tags_only")
        self.viols.append((rec, d))


# ----------------------------------------------------------------------------------------
# Pipelines.  Each returns '' (held) or a description of the failure.  `pipeline` names are stable
# identifiers used in replay files.
# ----------------------------------------------------------------------------------------

def run_pipeline(cx: Ctx, proto, vals, parts, pipeline: str, rng=None, cpp_batch=None, chunk_mode="whole", collect=None, ostate=0):
    """pipeline = hop1>hop2>...; hops: ref.bin, ref.json (source encodings), py.read.bin, py.read.json (terminal),
    py.b2b py.b2j py.j2b py.j2j cpp.b2b cpp.b2j cpp.j2b cpp.j2j (relays), ref.dec (terminal: reference decoder)."""
    env, ns, codec, model = cx.env, cx.ns, cx.codec, cx.model
    schema = model.schema(proto)
    flat = sw.flat_values(proto, vals)
    hops = pipeline.split(">")
    fmt, data = None, None
    numeric = False
    for hop in hops:
        cx.bump("hops")
        if hop == "ref.bin":
            data, fmt = codec.encode_stream(proto, ns, schema, vals, parts), "binary"
        elif hop == "ref.json":
            data, fmt, numeric = codec.encode_ndjson(proto, ns, schema, vals), "ndjson", True
        elif hop.startswith("py.read"):
            want = "binary" if hop.endswith("bin") else "ndjson"
            assert fmt == want, (pipeline, fmt)
            stream = P.binary_input(data, rng, chunk_mode) if fmt == "binary" else (P.text_input(data, rng, chunk_mode) if rng else io.StringIO(data))
            # half of the reads gather each stream into a list before looking at the items, as
            # `items = list(reader.read_x())` does: values already handed out must not change afterwards
            drawn = bool(rng is not None and rng.chance(0.5))
            collect = drawn if collect is None else bool(collect)
            cx.last_collect = collect
            cx.bump("py_read_collect_then_inspect" if collect else "py_read_item_by_item")
            with runner.time_limit(60):
                d, err, closed = P.read_all(model, proto, fmt, stream, collect=collect)
            if err is not None:
                return "%s raised %r" % (hop, err)
            return sw.flat_equal(env, ns, proto, flat, d, numeric)
        elif hop in ("py.rwb", "py.rwj"):
            # read into Python objects, same values in another in-memory representation, written by a fresh writer
            assert fmt == "binary", (pipeline, fmt)
            fout = "binary" if hop == "py.rwb" else "ndjson"
            with runner.time_limit(60):
                # (representation choices derive from the case itself, so that a replay makes the same ones)
                import hashlib
                rw = M.derive(cx.task["seed"], "rw", cx.task["i"], proto.name, pipeline, hashlib.sha1(repr(vals).encode()).hexdigest())
                out, err = P.rewrite(model, proto, data, fout, rw, cx.stats)
            if err is not None:
                return "%s raised %r" % (hop, err)
            data, fmt = out, fout
            numeric = numeric or fout == "ndjson"
        elif hop.startswith("py."):
            fin = {"b": "binary", "j": "ndjson"}[hop[3]]
            fout = {"b": "binary", "j": "ndjson"}[hop[5]]
            assert fmt == fin, (pipeline, fmt, fin)
            fifo_ = None
            if fin == "binary":
                if rng is not None and rng.fork("fifo", hop).chance(0.12):
                    # the reader is given a path name, and the path names a pipe
                    fifo_ = stream = P.fifo_path_input(bytes(data), rng.fork("fifo_sizes", hop), model.dir)
                    cx.bump("py_binary_read_from_a_named_pipe_by_path")
                else:
                    stream = P.binary_input(data, rng, chunk_mode)
            else:
                text_ = data if isinstance(data, str) else data.decode("utf-8")
                # (the NDJSON reader takes text streams and - its signature says - buffered binary ones)
                if rng is not None and rng.fork("ndjson_stream_kind", hop).chance(0.3):
                    stream = io.BufferedReader(io.BytesIO(text_.encode("utf-8")))
                    cx.bump("py_ndjson_read_from_a_binary_stream")
                else:
                    stream = io.StringIO(text_)
            try:
                with runner.time_limit(60):
                    out, err = P.relay(model, proto, fin, stream, fout)
            finally:
                if fifo_ is not None:
                    try:
                        os.unlink(fifo_)
                    except OSError:
                        pass
            if err is not None:
                return "%s raised %r" % (hop, err)
            data, fmt = out, fout
            numeric = numeric or fout == "ndjson"
        elif hop.startswith("cpp."):
            fin = {"b": "binary", "j": "ndjson"}[hop[4]]
            fout = {"b": "binary", "j": "ndjson"}[hop[6]]
            assert fmt == fin, (pipeline, fmt, fin)
            raw = data if isinstance(data, (bytes, bytearray)) else data.encode("utf-8")
            nb = cx.cm.copyto[proto.name]
            run = {"proto": proto.name, "op": "relay", "in_fmt": fin, "out_fmt": fout, "input": 0, "batch": cpp_batch or [1] * nb,
                   "chunk_mode": {"whole": 0, "bytewise": 1, "small": 2, "mixed": 3}[chunk_mode], "chunk_seed": 7}
            if ostate:
                # the output stream the C++ writer is handed was used by its owner before and is not in its default state
                # (numeric base, sign display, float notation, a locale with digit grouping, fill character)
                run["ostate"] = ostate
                cx.bump("cpp_hops_reading_from_an_istream_with_exceptions_enabled" if ostate == 7 else "cpp_hops_writing_to_an_ostream_that_is_not_in_its_default_state")
            dec = cx.decoy(proto) if (rng is not None and rng.fork("decoy", hop).chance(0.5)) else None
            if dec is not None:
                # process history: another protocol's writers and readers were at work in this process before
                cx.bump("cpp_hops_after_another_protocol_in_the_same_process")
                res = cx.cm.run_plan([bytes(raw)] + dec[0], dec[1] + [run], timeout=120)[-1]
            else:
                res = cx.cm.run_plan([bytes(raw)], [run], timeout=120)[0]
            if res is None:
                return "%s: no result" % hop
            if res.get("crashed"):
                return "%s crashed: %s" % (hop, res.get("stderr", "")[-300:])
            if not res["ok"]:
                return "%s raised in %s: %s" % (hop, res["phase"], res.get("what"))
            out = bytes.fromhex(res["out"])
            data, fmt = (out if fout == "binary" else out.decode("utf-8")), fout
            numeric = numeric or fout == "ndjson"
        elif hop == "ref.dec":
            try:
                got, _ = decode_flat(codec, proto, ns, schema, data, fmt)
            except (R.Truncated, R.Malformed, UnicodeDecodeError, ValueError, KeyError) as e:
                return "output of the previous hop does not decode under the documented format: %r" % (e,)
            return sw.flat_equal(env, ns, proto, flat, got, numeric)
        elif hop == "ref.exact":
            # byte-exact conformance: re-encoding what the reference decoder understood (same block partition,
            # same map entry order) must reproduce the emitted bytes
            try:
                v, parts2, _ = codec.decode_stream(proto, ns, data, schema)
            except (R.Truncated, R.Malformed) as e:
                return "emitted stream does not decode: %r" % (e,)
            again = codec.encode_stream(proto, ns, schema, v, parts2)
            if again != data:
                k = next((i for i in range(min(len(again), len(data))) if again[i] != data[i]), min(len(again), len(data)))
                return "emitted bytes are not the documented encoding of their own content (first difference at byte %d of %d)" % (k, len(data))
            return sw.flat_equal(env, ns, proto, flat, sw.flat_values(proto, v), numeric)
        else:
            raise ValueError(hop)
    return ""


PIPES = {
    "C01": {
        "py": ["ref.bin>py.read.bin", "ref.bin>py.b2b>ref.dec", "ref.bin>py.b2b>ref.exact", "ref.bin>py.b2b>py.read.bin", "ref.bin>py.rwb>ref.dec"],
        "cpp": ["ref.bin>cpp.b2b>ref.dec", "ref.bin>cpp.b2b>ref.exact"],
    },
    "C02": {
        "py": ["ref.json>py.read.json", "ref.bin>py.b2j>ref.dec", "ref.bin>py.b2j>py.j2b>ref.dec", "ref.json>py.j2b>py.b2j>ref.dec", "ref.json>py.j2j>ref.dec", "ref.bin>py.rwj>ref.dec"],
        "cpp": ["ref.json>cpp.j2b>ref.dec", "ref.bin>cpp.b2j>ref.dec", "ref.bin>cpp.b2j>cpp.j2b>ref.dec", "ref.json>cpp.j2j>ref.dec"],
    },
    "C03": {
        "py": [],
        "cpp": ["ref.bin>cpp.b2b>py.read.bin", "ref.bin>py.b2b>cpp.b2b>ref.dec", "ref.bin>cpp.b2j>py.read.json", "ref.bin>py.b2j>cpp.j2b>ref.dec",
                "ref.json>cpp.j2b>py.b2j>ref.dec", "ref.json>py.j2b>cpp.b2j>ref.dec", "ref.bin>cpp.b2b>py.b2b>ref.exact", "ref.bin>py.b2j>cpp.j2j>py.read.json", "ref.bin>py.rwb>cpp.b2b>ref.dec",
                "ref.bin>py.rwj>cpp.j2b>ref.dec"],     # (values re-written by Python as NDJSON from other in-memory representations, read by C++)
    },
}


def classify(prop, pipeline, why):
    if "raised" in why or "crashed" in why:
        cls = "node_failed_on_valid_stream"
    elif "does not decode" in why or "not the documented encoding" in why:
        cls = "output_not_in_documented_format"
    else:
        cls = "value_changed_in_round_trip"
    langs = sorted({h.split(".")[0] for h in pipeline.split(">") if not h.startswith("ref")})
    return {"class": cls, "nodes": "+".join(langs), "pipeline": pipeline}


def add_unset_steps(pkg, proto, r):
    """A record all of whose fields may be unset (its NDJSON form then has no members), as a value, inside an optional,
    as a union case and as a vector element."""
    fn0 = sorted(pkg.files)[0]
    pkg.files[fn0].append(M.Record("SteerUnset", (), [("first", M.Opt(M.Prim("int32"))), ("second", M.Opt(M.Prim("string"))),
                                                    ("third", M.Union((("uint16", M.Prim("uint16")), ("bool", M.Prim("bool"))), True))]))
    proto.steps.append(("steerunset", M.Named("SteerUnset"), r.chance(0.5)))
    proto.steps.append(("steerunsetopt", M.Opt(M.Named("SteerUnset")), r.chance(0.5)))
    proto.steps.append(("steerunsetuni", M.Union((("SteerUnset", M.Named("SteerUnset")), ("string", M.Prim("string"))), False), True))
    proto.steps.append(("steerunsetvec", M.Vec(M.Named("SteerUnset")), False))


def steer(pkg, rng, with_dates):
    """Coverage steering for the JSON properties: every model gets the union shapes the property names —
    a nullable union that needs tags, unions whose cases share a JSON representation (flags/enum next to
    numbers and strings, dates next to strings), records whose optional fields come and go between items."""
    protos = [d for d in pkg.defs() if isinstance(d, M.Protocol)]
    if not protos:
        return
    first = protos[0]
    fn = sorted(pkg.files)[0]
    names = {d.name for d in pkg.defs()}
    if "SteerFlags" in names:
        return
    add_unset_steps(pkg, first, rng.fork("unset"))
    pkg.files[fn].append(M.Enum("SteerFlags", rng.choice([None, "uint8", "uint64"]), [("fa", 1), ("fb", 2), ("fc", 8), ("fab", 3), ("fde", 48)], flags=True))   # single bits, a composite of two of them, a symbol of two bits that have no symbols of their own
    pkg.files[fn].append(M.Enum("SteerEnum", rng.choice([None, "int16"]), [("ea", 0), ("eb", 5), ("ec", 100)]))
    pkg.files[fn].append(M.Record("SteerRec", (), [("must", M.Prim("int32")), ("maybe", M.Opt(M.Prim("int32"))), ("extra", M.Opt(M.Prim("string"))),
                                                  ("alt", M.Union((("int32", M.Prim("int32")), ("string", M.Prim("string"))), nullable=True))]))
    first.steps.append(("steernull", M.Union((("strvec", M.Vec(M.Prim("string"))), ("intvec", M.Vec(M.Prim("int32")))), nullable=True, explicit=True), True))
    first.steps.append(("steerflags", M.Union((("SteerFlags", M.Named("SteerFlags")), ("int32", M.Prim("int32"))), nullable=rng.chance(0.5)), True))
    first.steps.append(("steerenum", M.Union((("SteerEnum", M.Named("SteerEnum")), ("bool", M.Prim("bool")), ("float64", M.Prim("float64"))), nullable=False), True))
    first.steps.append(("steerrec", M.Named("SteerRec"), True))
    # unions in which every case has a JSON kind of its own (so they are written untagged) and one case is an enum or a
    # flags type: a value without a symbol / with bits beyond the symbols is written as a bare integer
    first.steps.append(("steerenumonly", M.Union((("SteerEnum", M.Named("SteerEnum")), ("bool", M.Prim("bool"))), nullable=rng.chance(0.5)), True))
    first.steps.append(("steerflagsonly", M.Union((("SteerFlags", M.Named("SteerFlags")), ("string", M.Prim("string"))), nullable=rng.chance(0.5)), True))
    # flag sets that shrink from one stream item to the next (all symbols, one, none, ...), bare and as a record field: a
    # reader that builds a set up in place must start from nothing for every item
    pkg.files[fn].append(M.Record("SteerFlagRec", (), [("mode", M.Named("SteerFlags")), ("level", M.Prim("uint8"))]))
    first.steps.append(("steerflagitems", M.Named("SteerFlags"), True))
    first.steps.append(("steerflagrecs", M.Named("SteerFlagRec"), True))
    # symbols that differ from each other in letter case only (kb / kB, mb / mB: legal camelCase): in an enumeration, as map
    # keys, and in a flags type
    pkg.files[fn].append(M.Enum("SteerRate", rng.choice([None, "uint8", "int32"]), [("bps", 0), ("kb", 1), ("kB", 2), ("mb", 3), ("mB", 4)]))
    pkg.files[fn].append(M.Enum("SteerAccess", None, [("r", 1), ("rw", 2), ("rW", 4), ("x", 8), ("xX", 16), ("xx", 32)], flags=True))
    first.steps.append(("steerrates", M.Named("SteerRate"), True))
    first.steps.append(("steerratemap", M.Map(M.Named("SteerRate"), M.Prim("int32")), False))
    first.steps.append(("steeraccess", M.Named("SteerAccess"), True))
    # a generic record whose type argument is what makes a field omittable
    pkg.files[fn].append(M.Record("SteerGen", ("T", "U"), [("id", M.Prim("int32")), ("payload", M.TParam("T")), ("extra", M.Vec(M.TParam("U")))]))
    first.steps.append(("steergen", M.Named("SteerGen", (M.Opt(M.Prim("int32")), M.Opt(M.Prim("string")))), True))
    first.steps.append(("steergenu", M.Named("SteerGen", (M.Union((("int32", M.Prim("int32")), ("string", M.Prim("string"))), nullable=True), M.Prim("float64"))), True))
    # a union over a type parameter inside a generic record: whether its values are tagged depends on the type argument
    # (`[T, int32]` is written bare for T = string and needs tags for T = float64)
    pkg.files[fn].append(M.Record("SteerTagged", ("T",), [("value", M.Union((("T", M.TParam("T")), ("int32", M.Prim("int32"))))), ("label", M.Prim("string"))]))
    first.steps.append(("steertagnum", M.Named("SteerTagged", (M.Prim("float64"),)), True))
    first.steps.append(("steertagstr", M.Named("SteerTagged", (M.Prim("string"),)), rng.chance(0.5)))
    # unions whose cases share a JSON *container* kind: arrays (vectors, maps whose keys are not strings, complex numbers)
    # and objects (records, maps with string keys)
    kt = M.Prim(rng.choice(["int16", "uint8", "int64"] + (["date", "datetime"] if with_dates else [])))
    first.steps.append(("steerarrs", M.Union((("vec", M.Vec(M.Prim("int32"))), ("kmap", M.Map(kt, M.Prim("int32")))), nullable=rng.chance(0.3), explicit=True), True))
    first.steps.append(("steerobjs", M.Union((("rec", M.Named("SteerRec")), ("smap", M.Map(M.Prim("string"), M.Prim("int32")))), nullable=rng.chance(0.3), explicit=True), True))
    first.steps.append(("steercplx", M.Union((("cplx", M.Prim("complexfloat32")), ("fvec", M.Vec(M.Prim("float32")))), nullable=False, explicit=True), True))
    # a named type that can be absent, used as a record field, a step and a vector element
    pkg.files[fn].append(M.Alias("SteerOptAls", (), M.Opt(M.Prim("string"))))
    # (a union with the same cases as an inline one elsewhere in the model makes yardl's Python output unusable - C08, not claimed)
    pkg.files[fn].append(M.Alias("SteerNullAls", (), M.Union((("float64", M.Prim("float64")), ("string", M.Prim("string"))), nullable=True)))
    pkg.files[fn].append(M.Record("SteerRecAls", (), [("id", M.Prim("int32")), ("label", M.Named("SteerOptAls")), ("best", M.Named("SteerNullAls"))]))
    first.steps.append(("steeralsrec", M.Named("SteerRecAls"), True))
    first.steps.append(("steeralsopt", M.Named("SteerOptAls"), True))
    if with_dates:
        first.steps.append(("steertimes", M.Prim("time"), True))
        first.steps.append(("steerdatetimes", M.Prim("datetime"), True))
        first.steps.append(("steerdate", M.Union((("string", M.Prim("string")), ("date", M.Prim("date"))), nullable=False), True))
        first.steps.append(("steertime", M.Union((("time", M.Prim("time")), ("int64", M.Prim("int64")), ("datetime", M.Prim("datetime"))), nullable=True, explicit=False), True))


def add_zoo(first, pr_, want_cpp, pkg=None):
    # arrays over every kind of element NumPy holds as an object or as a sub-array - and the same arrays inside a vector,
    # an optional and a map: what one generated reader hands out for them has to be accepted by every generated writer
    zr_ = pr_.fork("zoo")
    znum = lambda: M.Prim(zr_.choice(["float32", "float64", "uint8", "int16", "int32", "uint64"]))
    zoo = [M.Vec(znum()), M.Vec(znum(), zr_.randint(1, 3)), M.Prim("string"), M.Opt(znum()), M.Arr(znum(), ((None, 2), (None, 2))),
           M.Vec(M.Prim("string")), M.Vec(M.Prim("bool")), M.Opt(M.Prim("string")), M.Vec(M.Vec(znum(), 2))]
    if want_cpp:
        # (yardl's C++ does not compile for vectors of bool - std::vector<bool> has no data(): C08, not claimed; with the
        #  shape in the zoo half of the C++ models of C03 were discarded)
        zoo = [t_ for t_ in zoo if t_ != M.Vec(M.Prim("bool"))]
    if not want_cpp:
        zoo += [M.Vec(M.Opt(znum())), M.Map(M.Prim("string"), znum()), M.Union((("int32", M.Prim("int32")), ("string", M.Prim("string")))),
                M.Arr(znum(), None), M.Opt(M.Arr(znum(), 1)), M.Vec(M.Prim(zr_.choice(["complexfloat32", "datetime", "date"]))),
                M.Union((("float32", M.Prim("float32")), ("vec", M.Vec(znum()))), nullable=True, explicit=True)]
    if pkg is not None and pkg.find("SteerZooRec") is None:
        # ... and records that are not plain old data: NumPy holds their string / vector / optional fields as objects inside
        # a structured element
        pkg.files[sorted(pkg.files)[0]].append(M.Record("SteerZooRec", (), [("name", M.Prim("string")), ("samples", M.Vec(znum())), ("maybe", M.Opt(M.Prim("int32"))), ("n", M.Prim("uint8"))]))
        zoo.append(M.Named("SteerZooRec"))
        zoo.append(M.Opt(M.Named("SteerZooRec")))
    for zk_, zt_ in enumerate(zoo):
        if zr_.chance(0.35):
            za_ = M.Arr(zt_, zr_.choice([None, None, 1, 2, ((None, 2),)]))
            zw_ = zr_.choice([za_, za_, M.Vec(za_), M.Opt(za_), M.Map(M.Prim("string"), za_)])
            if isinstance(zw_, M.Opt) and isinstance(zt_, M.Union):
                zw_ = za_      # (yardl reports `[null, !array {items: [int32, string]}]` as a union inside a union - a verdict matter, C09)
            first.steps.append(("steerzoo%d" % zk_, zw_, zr_.chance(0.5)))


WATCH_FILES = {"C01": ("binary.py", "binary/protocols.", "Serializer.m"), "C02": ("ndjson.py", "ndjson/protocols."), "C03": ("binary.py", "ndjson.py", "binary/protocols.", "ndjson/protocols.", "types.")}


def watch_task(task, prop):
    """Writers and readers generated by a long-lived `yardl generate --watch` process: after the model files were edited, the
    serializer code on disk must be what a one-shot generation of the final model writes - code that still encodes an earlier
    definition of a type writes streams that do not decode to the values written.  Runs C20's workloads in the simulated OS; only
    differences in files that hold serializers / converters are reported here (anything else is C20's business)."""
    import importlib
    W = importlib.import_module("checks.C20")
    from toolworld import tw
    seed, i = task["seed"], task["i"]
    sim = tw.Sim(os.environ.get("VERIF_REPO", "/repo"))
    stats, viols, cases = {"watch_sessions": 0}, [], []
    for j in range(12 if task["tier"] == "quick" else 40):
        # (with a bias towards edits after which a type keeps its name and changes its encoding)
        doc_ = W.make_case(M.derive(seed, prop + "watch", i).next() % (1 << 40), i * 1000 + j, kinds_bias=["widen_alias", "widen_enum_base", "widen_field", "widen_alias"] * 4, steer_named=True)
        if doc_["case"].get("ends_invalid"):
            continue
        viol, st = W.execute(sim, doc_)
        stats["watch_sessions"] += 1
        stats["runs"] = stats.get("runs", 0) + st.get("runs", 1)
        if viol is not None and viol.get("class") == "not_converged":
            hit = [q for q in st.get("diff_paths", []) if any(x in q for x in WATCH_FILES[prop])]
            if hit:
                viols.append(({"class": "serializers_generated_in_watch_mode_differ_from_one_shot", "nodes": "tool", "pipeline": "watch", "what": hit[0].rsplit("/", 1)[-1]},
                              dict(doc_, kind="watch", first=hit[0])))
                break
        cases.append(([prop + "w", i, j], True))
    return {"stats": stats, "violations": viols, "cases": cases, "samples": []}


def replay_watch(doc):
    import importlib
    W = importlib.import_module("checks.C20")
    from toolworld import tw
    viol, _ = W.execute(tw.Sim(os.environ.get("VERIF_REPO", "/repo")), doc)
    return (viol is not None and viol.get("class") == "not_converged"), str(viol)


def model_task(task, ybin, root, prop):
    seed, i, quick = task["seed"], task["i"], task["tier"] == "quick"
    if i % 16 == 9:
        return watch_task(task, prop)
    rng = M.derive(seed, prop, i)
    needs_cpp = prop == "C03"
    want_cpp = needs_cpp or ((i % 5 == 0) if quick else (i % 2 == 0))
    cfg = M.GenConfig.swarm(rng.fork("cfg"))
    json_involved = prop in ("C02", "C03")
    if want_cpp and json_involved:
        cfg.time_types = False      # C++ formats dates through the stubbed date.h: excluded from C++ NDJSON comparisons
    if not want_cpp:
        cfg.time_keys = True        # date / datetime map keys: usable in Python only
    pkg = sw.stream_package(rng.next(), cfg=cfg, for_cpp=want_cpp)
    if json_involved:
        steer(pkg, rng.fork("steer"), with_dates=not want_cpp)
    if prop == "C02":
        protos_ = [d for d in pkg.defs() if isinstance(d, M.Protocol)]
        if protos_:
            add_zoo(protos_[0], rng.fork("steerpod"), want_cpp, pkg)
    if prop in ("C01", "C03"):
        # every model read in binary carries streams of numeric arrays (whole-buffer fast paths of the runtimes)
        protos0 = [d for d in pkg.defs() if isinstance(d, M.Protocol)]
        if protos0:
            ar = rng.fork("steerarr")
            protos0[0].steps.append(("steerarr", M.Arr(M.Prim(ar.choice(["float32", "int16", "float64", "uint8", "complexfloat32"])), ar.choice([None, 1, 2, ((None, 3),)])), True))
            protos0[0].steps.append(("steerfix", M.Arr(M.Prim(ar.choice(["float32", "int8", "float64"])), ((None, 2), (None, 2))), True))
            # records of fixed-size fields in the three layout classes a C struct can have: padding after the last field,
            # padding between fields, none - as stream items, vector elements and fixed-vector elements
            pr_ = rng.fork("steerpod")
            wide = lambda: M.Prim(pr_.choice(["float64", "complexfloat64", "float64"]))
            narrow = lambda: M.Prim(pr_.choice(["float32", "uint8", "int8", "bool"]))
            fn0 = sorted(pkg.files)[0]
            pkg.files[fn0].append(M.Record("SteerPodTail", (), [("wide", wide()), ("narrow", narrow())]))
            pkg.files[fn0].append(M.Record("SteerPodInner", (), [("narrow", narrow()), ("wide", wide())]))
            pkg.files[fn0].append(M.Record("SteerPodPacked", (), [("first", M.Prim("float32")), ("second", M.Prim("float32"))]))
            pkg.files[fn0].append(M.Record("SteerPodNested", (), [("head", M.Named("SteerPodTail")), ("tail", M.Prim(pr_.choice(["uint8", "float32"])))]))
            # ... and one with a fixed-length vector of length zero (a slot reserved for later): no bytes on the wire, but a member
            # of size one in a C++ struct
            pkg.files[fn0].append(M.Record("SteerPodEmpty", (), [("code", M.Prim("uint8")), ("reserved", M.Vec(M.Prim(pr_.choice(["uint8", "float32"])), 0)), ("level", M.Prim(pr_.choice(["int8", "uint8"])))]))
            # dense integer streams right behind the padding: with the alignment sweep, varints of every length and of every
            # "single high bit" shape get written and read across the staging-buffer boundary
            at = 1 if protos0[0].steps and protos0[0].steps[0][0] == sw.PAD_STEP else 0
            protos0[0].steps.insert(at, ("steeri64", M.Prim("int64"), True))
            protos0[0].steps.insert(at, ("steeru64", M.Prim("uint64"), True))
            if prop == "C01":
                add_unset_steps(pkg, protos0[0], pr_)
                # instants and times of day on both sides of every boundary the conversions know: before / after 1970, whole
                # seconds, whole microseconds (what the standard library's types can hold), odd nanoseconds
                # a fixed-length vector of fixed-size numbers whose encoding is larger than the staging buffers
                bt_, bn_ = pr_.choice([("uint8", 70000), ("float32", 17000), ("float64", 8200), ("int8", 65537), ("bool", 66000)])
                protos0[0].steps.append(("steerbigfixed", M.Vec(M.Prim(bt_), bn_), pr_.chance(0.3)))
                protos0[0].steps.append(("steerinstants", M.Prim("datetime"), True))
                # arrays whose elements are vectors or strings: NumPy holds them as objects, and what a reader hands out
                # for one (an array per vector) has to be writable again by the relaying node
                protos0[0].steps.append(("steerarrvec", M.Arr(M.Vec(M.Prim(pr_.choice(["int16", "float32", "uint8"]))), pr_.choice([None, 1])), pr_.chance(0.5)))
                protos0[0].steps.append(("steerclock", M.Prim("time"), True))
            # arrays of the widest integers, filled (below) with single high bits: the values at which a varint gets one byte longer
            protos0[0].steps.append(("steerarru64", M.Arr(M.Prim(pr_.choice(["uint64", "uint64", "size"])), pr_.choice([None, 1, 2])), pr_.chance(0.3)))
            protos0[0].steps.append(("steerarri64", M.Arr(M.Prim("int64"), pr_.choice([None, 1, ((None, 4),), ((None, 2), (None, 3))])), pr_.chance(0.3)))
            add_zoo(protos0[0], pr_, want_cpp, pkg)
            if not want_cpp and pr_.fork("wideunion").chance(0.2):
                # a union with more cases than a single byte with a continuation bit can number (Python models only: a
                # std::variant of that width takes minutes to compile)
                pkg.files[fn0].append(M.Alias("SteerWideUnion", (), M.Union(tuple(("c%d" % k_, M.Vec(M.Prim("uint8"), k_ + 1)) for k_ in range(pr_.fork("wideunion2").randint(129, 140))), explicit=True)))
                protos0[0].steps.append(("steerwideunion", M.Named("SteerWideUnion"), True))
            if pr_.fork("bigschema").chance(0.35):
                # a schema text of twenty-odd kilobytes: an enumeration with several hundred symbols, used by the first protocol
                pkg.files[fn0].append(M.Enum("AaaBigCodes", "uint16", [("code%03d" % k_, k_) for k_ in range(pr_.fork("bigschema2").randint(620, 900))]))
                protos0[0].steps.append(("steerbigcode", M.Named("AaaBigCodes"), pr_.chance(0.5)))
            # one generic record instantiated with containers that differ in their element type only (vectors of float / double,
            # maps to int / double, unions): per-instantiation serializers must not be mixed up within a process
            pkg.files[fn0].append(M.Record("SteerBox", ("T",), [("payload", M.TParam("T")), ("label", M.Prim("string"))]))
            box = lambda t_: M.Named("SteerBox", (t_,))
            protos0[0].steps.append(("steerboxf", box(M.Vec(M.Prim("float32"))), False))
            protos0[0].steps.append(("steerboxd", box(M.Vec(M.Prim("float64"))), pr_.chance(0.5)))
            protos0[0].steps.append(("steerboxmi", box(M.Map(M.Prim("string"), M.Prim("int16"))), False))
            protos0[0].steps.append(("steerboxmd", box(M.Map(M.Prim("string"), M.Prim("float64"))), False))
            protos0[0].steps.append(("steerboxu1", box(M.Union((("int32", M.Prim("int32")), ("string", M.Prim("string"))))), pr_.chance(0.5)))
            protos0[0].steps.append(("steerboxu2", box(M.Union((("float64", M.Prim("float64")), ("string", M.Prim("string"))))), False))
            # one generic record, several instantiations with different layouts, as array elements, vector elements and plain values
            pkg.files[fn0].append(M.Record("SteerPair", ("T", "U"), [("first", M.TParam("T")), ("second", M.TParam("U"))]))
            inst = lambda a, b: M.Named("SteerPair", (M.Prim(a), M.Prim(b)))
            protos0[0].steps.append(("steerpaira", M.Arr(inst("int8", "float64"), None), False))
            protos0[0].steps.append(("steerpairb", M.Arr(inst("float32", "float32"), ((None, 2),)), True))
            protos0[0].steps.append(("steerpairc", M.Vec(inst("float64", "uint8")), False))
            protos0[0].steps.append(("steerpaird", M.Arr(inst(pr_.choice(["uint8", "float64"]), pr_.choice(["float32", "int8"])), 2), True))
            protos0[0].steps.append(("steerpodt", M.Named("SteerPodTail"), True))
            protos0[0].steps.append(("steerpodi", M.Vec(M.Named("SteerPodInner")), False))
            protos0[0].steps.append(("steerpodp", M.Vec(M.Named("SteerPodPacked"), 2), False))
            protos0[0].steps.append(("steerpodn", M.Vec(M.Named("SteerPodNested")), True))
            protos0[0].steps.append(("steerpode", M.Named("SteerPodEmpty"), True))
            protos0[0].steps.append(("steerpodev", M.Vec(M.Named("SteerPodEmpty")), False))
    # the time zone the Python nodes run in: west and east of Greenwich, with and without minutes, with daylight saving
    pkg.process_tz = rng.fork("tz").choice(["UTC", "UTC", "PST8", "NST3:30", "JST-9", "CET-1CEST", "America/New_York", "Pacific/Kiritimati"])
    model = P.PyModel(pkg, ybin, root, want_cpp=want_cpp, cpp_opts=C.CPP_OPTS)
    stats, viols, cases = {"models_with_cpp": 1 if want_cpp else 0, "python_process_tz_%s" % pkg.process_tz: 1}, [], []
    try:
        cm = None
        if want_cpp:
            try:
                cm = C.CppModel(model.dir)
            except C.GeneratedCodeDoesNotCompile:
                stats["generated_cpp_did_not_compile(discarded)"] = 1
                if needs_cpp:
                    return {"stats": stats, "violations": [], "cases": [], "samples": []}
        cx = Ctx(prop, model, cm, task, stats, viols)
        for proto in model.protocols():
            pr = rng.fork(proto.name)
            reps = 3 if quick else 10
            for rep in range(reps):
                r = pr.fork(rep)
                finite = json_involved
                big = r.chance(0.5 if prop in ("C01", "C03") else 0.25)     # binary properties: every second workload is aligned to a buffer boundary
                pad_len = None
                if big and proto.steps[0][0] == sw.PAD_STEP:
                    hl = 9 + 3 + len(model.schema(proto).encode())
                    pad_len = r.choice([sw.BUF - hl - 3 - r.randint(0, 40), sw.BUF + r.randint(0, 9), 2 * sw.BUF - hl - r.randint(0, 30)])
                    if not quick and r.chance(0.1):
                        pad_len = 1100000
                items = (0, 0) if r.chance(0.1) else (0, 6)
                vals = sw.gen_values(cx.env, cx.ns, proto, r, finite=finite, big=r.chance(0.3), items=items, pad_len=pad_len)
                for k_, (sn_, st_, ss_) in enumerate(proto.steps):
                    if sn_ in ("steertimes", "steerdatetimes") and r.fork("manytimes", sn_).chance(0.5):
                        # a few hundred times of day / instants with every number of fraction digits
                        tr = r.fork("times", sn_)
                        out_ = []
                        for _ in range(tr.randint(100, 300)):
                            digits = tr.randint(0, 9)
                            frac = (tr.next() % (10 ** digits)) * 10 ** (9 - digits) if digits else 0
                            secs = tr.next() % 86400
                            ns_ = secs * 10 ** 9 + frac
                            out_.append(ns_ if sn_ == "steertimes" else (tr.next() % (4 * 10 ** 9)) * 10 ** 9 + ns_ - 10 ** 18)
                        vals[k_] = out_
                    if sn_ in ("steerenumonly", "steerflagsonly") and r.fork("barenums", sn_).chance(0.7):
                        br_ = r.fork("barenums2", sn_)
                        ints_ = [7, 1, 99, 0, 5] if sn_ == "steerenumonly" else [4, 64, 68, 3, 0, 16]
                        # (values with and without symbols, and the other case, in seeded order)
                        items_ = [("u", 0, x_) for x_ in ints_] + [("u", 1, True if sn_ == "steerenumonly" else "txt")]
                        br_.shuffle(items_)
                        vals[k_] = items_[:br_.randint(3, len(items_))]
                    if sn_ == "steerinstants":
                        tr_ = r.fork("instants")
                        out_ = []
                        for _ in range(tr_.randint(8, 24)):
                            secs_ = tr_.randint(-2 * 10 ** 9, 2 * 10 ** 9)
                            frac_ = tr_.choice([0, 0, tr_.randint(0, 999999) * 1000, tr_.randint(0, 999999) * 1000, 500000000, 1000, 999999000, tr_.randint(0, 999999999)])
                            out_.append(secs_ * 10 ** 9 + frac_)
                        vals[k_] = out_
                    if sn_ == "steerclock":
                        tr_ = r.fork("clock")
                        vals[k_] = [tr_.randint(0, 86399) * 10 ** 9 + tr_.choice([0, tr_.randint(0, 999999) * 1000, 999999000, tr_.randint(0, 999999999)]) for _ in range(tr_.randint(6, 16))]
                    if sn_ in ("steerflagitems", "steerflagrecs") and r.fork("shrinkflags", sn_).chance(0.7):
                        seq_ = [59, 1, 0, 8, 49, 3, 2][:r.fork("shrinkflags2", sn_).randint(3, 7)]
                        vals[k_] = seq_ if sn_ == "steerflagitems" else [{"mode": v_, "level": j_} for j_, v_ in enumerate(seq_)]
                    if sn_ in ("steeru64", "steeri64") and pad_len is not None:
                        ir_ = r.fork("ints", sn_)
                        vg_ = V.ValueGen(cx.env, ir_, finite_only=finite, json_safe=finite)
                        lo_, hi_ = M.INT_RANGE[st_.name]
                        head_ = []
                        while len(head_) < 16:
                            # the items that straddle the boundary: single high bits with (almost) nothing below them, every varint length
                            c_ = (1 << ir_.randint(6, 64)) + ir_.choice([-1, 0, 0, 1, ir_.randint(2, 127)])
                            if ir_.chance(0.4):
                                c_ = -c_
                            if lo_ <= c_ <= hi_:
                                head_.append(c_)
                        vals[k_] = head_ + [vg_.gen_int(st_.name) for _ in range(r.randint(10, 40))]
                    if sn_ in ("steerarru64", "steerarri64") and r.fork("bigints", sn_).chance(0.7):
                        ir_ = r.fork("arrints", sn_)
                        lo_, hi_ = M.INT_RANGE[st_.inner.name]

                        def special_(ir_=ir_, lo_=lo_, hi_=hi_):
                            while True:
                                c_ = (1 << ir_.randint(6, 64)) + ir_.choice([-1, 0, 0, 0, 1, 2, ir_.randint(2, 300), ir_.randint(2, 30000)])
                                if ir_.chance(0.4):
                                    c_ = -c_ - ir_.choice([0, 1])
                                if lo_ <= c_ <= hi_:
                                    return c_

                        def fill_(v_):
                            return ("a", v_[1], [special_() for _ in v_[2]])
                        if ss_:
                            vals[k_] = [fill_(v_) for v_ in vals[k_]]
                        else:
                            if not vals[k_][2] and st_.dims in (None, 1):
                                n_ = ir_.randint(8, 40)
                                vals[k_] = ("a", (n_,), [0] * n_)
                            vals[k_] = fill_(vals[k_])
                        cx.bump("arrays_of_single_high_bit_integers")
                long_stream = False
                has_arr = any(n in ("steerarr", "steerfix") for n, _, _ in proto.steps)
                if prop in ("C01", "C03") and r.chance(0.4 if has_arr else 0.15):
                    # a stream that spans several staging buffers: refills happen while earlier items may still be held
                    if sw.lengthen(cx.env, cx.ns, proto, vals, r.fork("long"), finite=finite, prefer=("steerarr", "steerfix")) is not None:
                        cx.bump("stream_lengthened_past_refill")
                        long_stream = True
                parts = sw.gen_partitions(proto, vals, r)
                size = len(cx.codec.encode_stream(proto, cx.ns, model.schema(proto), vals, parts))
                if prop in ("C01", "C03") and proto.steps[0][0] == sw.PAD_STEP and isinstance(vals[0], str) and r.fork("endalign").chance(0.3):
                    # the whole stream ends on (or one or two bytes next to) a multiple of the staging-buffer size: the reader's last
                    # refill is a full one, and the refill after it delivers nothing
                    er_ = r.fork("endalign2")
                    target_ = -(-size // sw.BUF) * sw.BUF + er_.choice([0, 0, 0, 0, -1, 1, 2])
                    if target_ < size:
                        target_ += sw.BUF
                    for _ in range(5):
                        if size == target_:
                            break
                        if size < target_:
                            vals[0] = vals[0] + "p" * (target_ - size)
                        elif len(vals[0]) >= size - target_:
                            vals[0] = vals[0][:len(vals[0]) - (size - target_)]
                        else:
                            break
                        size = len(cx.codec.encode_stream(proto, cx.ns, model.schema(proto), vals, parts))
                    if size % sw.BUF == 0:
                        cx.bump("stream_ends_on_a_staging_buffer_boundary")
                cx.bump("workloads")
                cx.bump("stream_gt_64k" if size > sw.BUF else "stream_le_64k")
                if size > 1 << 20:
                    cx.bump("stream_gt_1m")
                if all((not s) or len(v) == 0 for (_, _, s), v in zip(proto.steps, vals)):
                    cx.bump("all_streams_empty")
                pipes = list(PIPES[prop]["py"]) + (PIPES[prop]["cpp"] if cm is not None else [])
                for pl in pipes:
                    mode = r.choice(["whole", "whole", "mixed", "small"] if size < 20000 else ["whole", "mixed"])
                    if mode != "whole":
                        cx.bump("short_read_delivery")
                    batch = None
                    if cm is not None:
                        batch = [r.choice([1, 2, 3, 64]) for _ in range(cm.copyto[proto.name])]
                    cx.bump("runs")
                    cx.last_collect = None
                    ostate = r.fork("ostate", pl).choice([1, 2, 3, 4, 5, 6, 7, 7]) if (cm is not None and "cpp." in pl and r.fork("ostate?", pl).chance(0.3)) else 0
                    try:
                        # a long stream is always gathered before it is inspected: that is the history it was made for
                        why = run_pipeline(cx, proto, vals, parts, pl, r.fork("chunks", pl), batch, mode, collect=True if long_stream else None, ostate=ostate)
                    except runner.Hang as e:
                        why = "%s" % e
                    if why:
                        rec = classify(prop, pl, why)
                        cx.violation(rec, proto, vals, parts, pl, why, {"cpp_batch": batch, "chunk_mode": mode, "collect": cx.last_collect, "ostate": ostate})
                cases.append(([prop, i, proto.name, rep], True))
            extra_checks(cx, proto, pr, quick)
    finally:
        model.close()
    seen, out = set(), []
    for rec, d in viols:
        k = (rec["class"], rec.get("nodes"), rec.get("pipeline"), rec.get("what"))
        if k not in seen:
            seen.add(k)
            out.append((rec, d))
    return {"stats": stats, "violations": out[:6], "cases": cases,
            "samples": [{"model_index": i, "cpp": want_cpp, "protocol": M.render_def(model.protocols()[0], None, 0) if model.protocols() else ""}]}


def extra_checks(cx: Ctx, proto, rng, quick):
    """Property-specific probes."""
    model, env, ns = cx.model, cx.env, cx.ns
    schema = model.schema(proto)
    if cx.prop == "C01":
        # write error at byte p: the Python writer must surface it
        vals = sw.gen_values(env, ns, proto, rng.fork("werr"), items=(1, 4))
        data = cx.codec.encode_stream(proto, ns, schema, vals)
        for k in range(2 if quick else 6):
            p = rng.randint(0, max(0, len(data) - 1))
            sink = P.SimSink(fail_at=p)
            out, err = P.relay(model, proto, "binary", io.BytesIO(data), "binary", sink)
            cx.bump("runs")
            cx.bump("write_error_injected")
            if err is None:
                cx.violation({"class": "write_error_not_surfaced", "nodes": "py"}, proto, vals, None, "ref.bin>py.b2b(fail_at=%d)" % p,
                             "sink failed after %d bytes but the relay reported success" % p, {"fail_at": p})
                break
    if cx.prop == "C01" and cx.cm is not None:
        # the same for the C++ writer: a relay whose output stream stops accepting bytes must end in an exception
        vals = sw.gen_values(env, ns, proto, rng.fork("cwerr"), items=(1, 4))
        data = cx.codec.encode_stream(proto, ns, schema, vals)
        nb = cx.cm.copyto[proto.name]
        ps = [rng.randint(0, max(0, len(data) - 1)) for _ in range(2 if quick else 6)]
        runs = [{"proto": proto.name, "op": "relay", "in_fmt": "binary", "out_fmt": "binary", "input": 0, "batch": [1] * nb, "fail_at": p} for p in ps]
        for p, res in zip(ps, cx.cm.run_plan([data], runs, timeout=120)):
            cx.bump("runs")
            cx.bump("cpp_write_error_injected")
            if res is None:
                continue
            if res.get("crashed"):
                cx.violation({"class": "writer_crashed_on_write_error", "nodes": "cpp"}, proto, vals, None, "ref.bin>cpp.b2b(fail_at=%d)" % p, res.get("stderr", "")[-300:], {"fail_at": p})
                break
            if res["ok"]:
                cx.violation({"class": "write_error_not_surfaced", "nodes": "cpp"}, proto, vals, None, "ref.bin>cpp.b2b(fail_at=%d)" % p,
                             "the output stream failed after %d bytes but the relay reported success" % p, {"fail_at": p})
                break
    if cx.prop == "C02":
        # header line: {"yardl":{"version":1,"schema":<schema as JSON value>}}
        vals = sw.gen_values(env, ns, proto, rng.fork("hdr"), finite=True, items=(0, 2))
        out, err = P.relay(model, proto, "binary", io.BytesIO(cx.codec.encode_stream(proto, ns, schema, vals)), "ndjson")
        cx.bump("runs")
        if err is None:
            first = out.split("\n", 1)[0]
            try:
                h = json.loads(first)
                ok = h == {"yardl": {"version": R.NDJSON_VERSION, "schema": json.loads(schema)}}
            except json.JSONDecodeError:
                ok = False
            if not ok:
                cx.violation({"class": "ndjson_header_not_as_documented", "nodes": "py"}, proto, vals, None, "ref.bin>py.b2j", first[:300])
