"""Generic main() for stream checks: tasks -> worker processes -> violations/evidence."""
from __future__ import annotations

import json, os, sys, signal, contextlib

VERIF = os.path.dirname(os.path.dirname(os.path.abspath(__file__)))
sys.path.insert(0, VERIF)
from common.checklib import Check, parse_args  # noqa: E402
from streamworld import sw  # noqa: E402


class Hang(BaseException):
    """Raised by the alarm of time_limit inside whatever code is running.  Not an Exception: the nodes under test are run
    under `except Exception` (an error they report is an outcome), and a reader that does not terminate must not pass
    for one that reported an error."""


@contextlib.contextmanager
def time_limit(seconds: float):
    """Step/time bound for one reader run inside a worker (a reader that does not terminate is a hang)."""
    def handler(signum, frame):
        raise Hang("no termination within %.0fs" % seconds)
    old = signal.signal(signal.SIGALRM, handler)
    signal.setitimer(signal.ITIMER_REAL, seconds)
    try:
        yield
    finally:
        signal.setitimer(signal.ITIMER_REAL, 0)
        signal.signal(signal.SIGALRM, old)


def merge(dst: dict, src: dict):
    for k, v in src.items():
        if isinstance(v, dict):
            merge(dst.setdefault(k, {}), v)
        elif isinstance(v, (int, float)):
            dst[k] = dst.get(k, 0) + v
        else:
            dst[k] = v


def run(prop, level, modname, quick_models, thorough_budget, rule, real_code, stubbed, assumptions, replay_fn, quick_budget=120, fault_keys=(), max_reject=0.34):
    args = parse_args(prop)
    check = Check(prop, level, args)
    if args.replay:
        doc = json.load(open(args.replay))
        y, w, cleanup = sw.local_context(args.repo)
        try:
            ok, detail = replay_fn(doc, y, w)
        finally:
            cleanup()
        print("replay: violation %s: %s" % ("reproduced" if ok else "NOT reproduced", detail))
        if ok:
            print("VIOLATION property=%s replay=%s" % (prop, args.replay))
        sys.exit(1 if ok else 0)
    quick = args.tier == "quick"
    budget = check.budget(quick_budget, thorough_budget)
    drv = sw.Driver(args.repo)
    totals, rejected, trouble = {}, 0, []
    reject_reasons = []
    n_models = 0
    try:
        i = 0
        batch = drv.workers * 2
        limit = quick_models if quick else 10**9
        while i < limit and check.elapsed() < budget and len(check.violations) < 3:
            tasks = [{"seed": args.seed, "i": j, "tier": args.tier} for j in range(i, min(i + batch, limit))]
            i += len(tasks)
            for res in drv.map(modname, "model_task", tasks):
                if "rejected" in res:
                    rejected += 1
                    if len(reject_reasons) < 8:
                        reject_reasons.append(res["rejected"].strip().replace("\n", " | ")[-260:])
                    continue
                if "trouble" in res:
                    trouble.append(res["trouble"])
                    continue
                n_models += 1
                merge(totals, res.get("stats", {}))
                for key, nontrivial in res.get("cases", []):
                    check.note_case(tuple(key) if isinstance(key, list) else key, nontrivial)
                for s in res.get("samples", []):
                    check.sample(s)
                for rec, doc in res.get("violations", []):
                    check.report(rec, doc)
    finally:
        drv.close()
    if trouble and len(trouble) > max(2, n_models // 5):
        print("HARNESS-TROUBLE: %d of %d model tasks failed inside the harness; first:\n%s" % (len(trouble), n_models + len(trouble), trouble[0]))
        sys.exit(2)
    if not check.violations and (n_models == 0 or rejected > max(3, int((n_models + rejected) * max_reject))):
        # a pass that explored (almost) nothing is not a pass: the workload generator and the tool disagree about what a valid
        # package is, or generated code became unusable across the board - neither is something this check can judge
        print("HARNESS-TROUBLE: %d of %d generated models were rejected by yardl or their generated code was unusable; nothing was decided\n  %s"
              % (rejected, n_models + rejected, "\n  ".join(reject_reasons)))
        sys.exit(2)
    wall = check.elapsed()
    runs = totals.get("runs", 0)
    check.coverage["rule"] = rule
    check.extra["simulation"] = {
        "simulated_runs": runs, "runs_per_hour": int(runs / max(wall, 1e-9) * 3600), "models": n_models,
        "generator_rejected_or_generated_code_unusable": rejected, "harness_task_failures": len(trouble),
        "rejection_reasons(sample)": reject_reasons,
        "totals": totals, "fault_kinds": {k: totals.get(k, 0) for k in fault_keys},
        "real_code": real_code, "stubbed": stubbed,
    }
    if trouble:
        check.extra["simulation"]["first_harness_task_failure"] = trouble[0][-600:]
    check.assumptions += assumptions
    check.finish()
