#!/usr/bin/env python3
"""Streamworld self-tests run by setup: the reference codec against the documentation's worked
examples, and encode/decode identity on generated values."""
import os, sys
sys.path.insert(0, os.path.join(os.path.dirname(os.path.abspath(__file__)), ".."))
from gen import model as M, values as V, refcodec as R

R.selftest()
n = 0
for seed in range(60):
    pkg = M.gen_package(seed)
    env = M.Env(pkg)
    c = R.Codec(env)
    for d in pkg.defs():
        if not isinstance(d, M.Protocol):
            continue
        rng = M.derive(seed, "vals", d.name)
        for finite in (False, True):
            vg = V.ValueGen(env, rng, finite_only=finite, json_safe=finite, big=True)
            vals = []
            for name, t, stream in d.steps:
                qt = M.qualify(t, pkg.namespace)
                vals.append([vg.gen(qt) for _ in range(rng.randint(0, 4))] if stream else vg.gen(qt))
            b = c.encode_stream(d, pkg.namespace, "{}", vals)
            v2, _, _ = c.decode_stream(d, pkg.namespace, b, "{}")
            for (name, t, stream), a, bb in zip(d.steps, vals, v2):
                qt = M.qualify(t, pkg.namespace)
                ok = (len(a) == len(bb) and all(V.veq(env, qt, x, y) for x, y in zip(a, bb))) if stream else V.veq(env, qt, a, bb)
                assert ok, ("binary identity", seed, d.name, name)
            if finite:
                v3 = c.decode_ndjson(d, pkg.namespace, c.encode_ndjson(d, pkg.namespace, "{}", vals), "{}")
                for (name, t, stream), a, bb in zip(d.steps, vals, v3):
                    qt = M.qualify(t, pkg.namespace)
                    ok = (len(a) == len(bb) and all(V.veq(env, qt, x, y, True) for x, y in zip(a, bb))) if stream else V.veq(env, qt, a, bb, True)
                    assert ok, ("ndjson identity", seed, d.name, name)
            n += 1
print("streamworld self-test: reference codec reproduces the documentation's examples; encode/decode identity on %d workloads" % n)
