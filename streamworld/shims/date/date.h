#pragma once
// Minimal stand-in for HowardHinnant/date (verification stub, not yardl code).
#include <chrono>
#include <cstdint>
#include <cstdio>
#include <istream>
#include <ratio>
#include <string>

namespace date {
using days = std::chrono::duration<int, std::ratio<86400>>;
struct local_t {};
template <class D> using local_time = std::chrono::time_point<local_t, D>;
using local_days = local_time<days>;

namespace detail {
inline void civil_from_days(int64_t z, int64_t& y, unsigned& m, unsigned& d) {
  z += 719468;
  const int64_t era = (z >= 0 ? z : z - 146096) / 146097;
  const unsigned doe = static_cast<unsigned>(z - era * 146097);
  const unsigned yoe = (doe - doe / 1460 + doe / 36524 - doe / 146096) / 365;
  y = static_cast<int64_t>(yoe) + era * 400;
  const unsigned doy = doe - (365 * yoe + yoe / 4 - yoe / 100);
  const unsigned mp = (5 * doy + 2) / 153;
  d = doy - (153 * mp + 2) / 5 + 1;
  m = mp < 10 ? mp + 3 : mp - 9;
  y += (m <= 2);
}
inline int64_t days_from_civil(int64_t y, unsigned m, unsigned d) {
  y -= m <= 2;
  const int64_t era = (y >= 0 ? y : y - 399) / 400;
  const unsigned yoe = static_cast<unsigned>(y - era * 400);
  const unsigned doy = (153 * (m > 2 ? m - 3 : m + 9) + 2) / 5 + d - 1;
  const unsigned doe = yoe * 365 + yoe / 4 - yoe / 100 + doy;
  return era * 146097 + static_cast<int64_t>(doe) - 719468;
}
inline std::string fmt_date(int64_t dd) {
  int64_t y; unsigned m, d; civil_from_days(dd, y, m, d);
  char buf[64]; std::snprintf(buf, sizeof buf, "%04lld-%02u-%02u", static_cast<long long>(y), m, d); return buf;
}
inline std::string fmt_tod(int64_t ns) {
  int64_t s = ns / 1000000000LL, f = ns % 1000000000LL;
  char buf[64]; std::snprintf(buf, sizeof buf, "%02lld:%02lld:%02lld.%09lld", static_cast<long long>(s / 3600), static_cast<long long>((s / 60) % 60), static_cast<long long>(s % 60), static_cast<long long>(f)); return buf;
}
}  // namespace detail

inline std::string format(char const*, local_days const& v) { return detail::fmt_date(v.time_since_epoch().count()); }
inline std::string format(char const*, std::chrono::duration<int64_t, std::nano> const& v) { return detail::fmt_tod(v.count()); }
inline std::string format(char const*, std::chrono::time_point<std::chrono::system_clock, std::chrono::nanoseconds> const& v) {
  int64_t ns = v.time_since_epoch().count();
  int64_t dd = ns >= 0 ? ns / 86400000000000LL : -((-ns + 86400000000000LL - 1) / 86400000000000LL);
  return detail::fmt_date(dd) + "T" + detail::fmt_tod(ns - dd * 86400000000000LL);
}
template <class S> inline void from_stream(S& ss, char const*, local_days& v) {
  long long y; unsigned m, d; char c1, c2;
  if (ss >> y >> c1 >> m >> c2 >> d) v = local_days(days(static_cast<int>(detail::days_from_civil(y, m, d)))); else ss.setstate(std::ios::failbit);
}
template <class S> inline void from_stream(S& ss, char const*, std::chrono::duration<int64_t, std::nano>& v) {
  long long h, mi; double s; char c1, c2;
  if (ss >> h >> c1 >> mi >> c2 >> s) v = std::chrono::duration<int64_t, std::nano>(static_cast<int64_t>((h * 3600 + mi * 60) * 1000000000LL + static_cast<int64_t>(s * 1e9))); else ss.setstate(std::ios::failbit);
}
template <class S> inline void from_stream(S& ss, char const*, std::chrono::time_point<std::chrono::system_clock, std::chrono::nanoseconds>& v) {
  local_days d; char t; from_stream(ss, "", d); ss >> t; std::chrono::duration<int64_t, std::nano> tod{}; from_stream(ss, "", tod);
  v = std::chrono::time_point<std::chrono::system_clock, std::chrono::nanoseconds>(std::chrono::nanoseconds(static_cast<int64_t>(d.time_since_epoch().count()) * 86400000000000LL + tod.count()));
}
}  // namespace date
