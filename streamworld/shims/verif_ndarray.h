#pragma once
// Minimal stand-in for xtensor-backed arrays (verification stub, not yardl code).
#include <array>
#include <cstddef>
#include <numeric>
#include <stdexcept>
#include <type_traits>
#include <utility>
#include <vector>

namespace yardl {

namespace detail {
// Contiguous storage that, unlike std::vector<bool>, is a plain array for every T.
template <typename T>
class Buf {
  using Raw = std::conditional_t<std::is_same_v<T, bool>, unsigned char, T>;
  static_assert(sizeof(Raw) == sizeof(T));
 public:
  void resize(size_t n) { raw_.resize(n); }
  size_t size() const { return raw_.size(); }
  T* data() { return reinterpret_cast<T*>(raw_.data()); }
  T const* data() const { return reinterpret_cast<T const*>(raw_.data()); }
  T* begin() { return data(); }
  T* end() { return data() + size(); }
  T const* begin() const { return data(); }
  T const* end() const { return data() + size(); }
  T& operator[](size_t i) { return data()[i]; }
  T const& operator[](size_t i) const { return data()[i]; }
  bool operator==(Buf const& o) const {
    if (size() != o.size()) return false;
    for (size_t i = 0; i < size(); i++) if (!((*this)[i] == o[i])) return false;
    return true;
  }
 private:
  std::vector<Raw> raw_;
};
}  // namespace detail

template <typename T, size_t... Dims>
class FixedNDArray {
 public:
  static constexpr size_t kSize = (Dims * ... * 1);
  using value_type = T;
  FixedNDArray() : data_{} {}
  FixedNDArray(std::initializer_list<T> flat) : data_{} {
    size_t i = 0;
    for (auto const& v : flat) { if (i < kSize) data_[i++] = v; }
  }
  auto begin() { return data_.begin(); }
  auto end() { return data_.end(); }
  auto begin() const { return data_.begin(); }
  auto end() const { return data_.end(); }
  T* data() { return data_.data(); }
  T const* data() const { return data_.data(); }
  bool operator==(FixedNDArray const& o) const { return data_ == o.data_; }
  bool operator!=(FixedNDArray const& o) const { return !(*this == o); }
  std::array<T, kSize> data_;
};

template <typename T, size_t N>
class NDArray {
 public:
  using value_type = T;
  NDArray() { shape_.fill(0); }
  auto begin() { return data_.begin(); }
  auto end() { return data_.end(); }
  auto begin() const { return data_.begin(); }
  auto end() const { return data_.end(); }
  bool operator==(NDArray const& o) const { return shape_ == o.shape_ && data_ == o.data_; }
  bool operator!=(NDArray const& o) const { return !(*this == o); }
  std::array<size_t, N> shape_;
  detail::Buf<T> data_;
};

template <typename T>
class DynamicNDArray {
 public:
  using value_type = T;
  // like a default-constructed xt::xarray: rank 0, i.e. one (value-initialised) element
  DynamicNDArray() { data_.resize(1); }
  auto begin() { return data_.begin(); }
  auto end() { return data_.end(); }
  auto begin() const { return data_.begin(); }
  auto end() const { return data_.end(); }
  bool operator==(DynamicNDArray const& o) const { return shape_ == o.shape_ && data_ == o.data_; }
  bool operator!=(DynamicNDArray const& o) const { return !(*this == o); }
  std::vector<size_t> shape_;
  detail::Buf<T> data_;
};

namespace detail {
template <class S>
inline size_t flat_index(S const& shape, std::initializer_list<size_t> idx) {
  size_t flat = 0, d = 0;
  for (auto i : idx) { flat = flat * shape[d++] + i; }
  return flat;
}
}  // namespace detail

/**** FixedNDArray ****/
template <typename T, size_t... Dims>
constexpr size_t size(FixedNDArray<T, Dims...> const&) { return FixedNDArray<T, Dims...>::kSize; }
template <typename T, size_t... Dims>
constexpr size_t dimension(FixedNDArray<T, Dims...> const&) { return sizeof...(Dims); }
template <typename T, size_t... Dims>
constexpr std::array<size_t, sizeof...(Dims)> shape(FixedNDArray<T, Dims...> const&) { return {Dims...}; }
template <typename T, size_t... Dims>
constexpr size_t shape(FixedNDArray<T, Dims...> const& a, size_t dim) { return shape(a)[dim]; }
template <typename T, size_t... Dims>
T* dataptr(FixedNDArray<T, Dims...>& a) { return a.data(); }
template <typename T, size_t... Dims>
T const* dataptr(FixedNDArray<T, Dims...> const& a) { return a.data(); }
template <typename T, size_t... Dims, class... Args>
T const& at(FixedNDArray<T, Dims...> const& a, Args... idx) { return a.data()[detail::flat_index(shape(a), {static_cast<size_t>(idx)...})]; }

/**** NDArray ****/
template <typename T, size_t N>
size_t size(NDArray<T, N> const& a) { return a.data_.size(); }
template <typename T, size_t N>
size_t dimension(NDArray<T, N> const&) { return N; }
template <typename T, size_t N>
std::array<size_t, N> shape(NDArray<T, N> const& a) { return a.shape_; }
template <typename T, size_t N>
size_t shape(NDArray<T, N> const& a, size_t dim) { return a.shape_[dim]; }
template <typename T, size_t N>
void resize(NDArray<T, N>& a, std::array<size_t, N> const& shape) {
  a.shape_ = shape;
  size_t n = 1;
  for (auto d : shape) n *= d;
  a.data_.resize(n);
}
template <typename T, size_t N>
T* dataptr(NDArray<T, N>& a) { return a.data_.data(); }
template <typename T, size_t N>
T const* dataptr(NDArray<T, N> const& a) { return a.data_.data(); }
template <typename T, size_t N, class... Args>
T const& at(NDArray<T, N> const& a, Args... idx) { return a.data_[detail::flat_index(a.shape_, {static_cast<size_t>(idx)...})]; }

/**** DynamicNDArray ****/
template <typename T>
size_t size(DynamicNDArray<T> const& a) { return a.data_.size(); }
template <typename T>
size_t dimension(DynamicNDArray<T> const& a) { return a.shape_.size(); }
template <typename T>
std::vector<size_t> shape(DynamicNDArray<T> const& a) { return a.shape_; }
template <typename T>
size_t shape(DynamicNDArray<T> const& a, size_t dim) { return a.shape_[dim]; }
template <typename T>
void resize(DynamicNDArray<T>& a, std::vector<size_t> const& shape) {
  a.shape_ = shape;
  size_t n = 1;
  for (auto d : shape) n *= d;
  a.data_.resize(n);
}
template <typename T>
T* dataptr(DynamicNDArray<T>& a) { return a.data_.data(); }
template <typename T>
T const* dataptr(DynamicNDArray<T> const& a) { return a.data_.data(); }
template <typename T, class... Args>
T const& at(DynamicNDArray<T> const& a, Args... idx) { return a.data_[detail::flat_index(a.shape_, {static_cast<size_t>(idx)...})]; }

}  // namespace yardl
