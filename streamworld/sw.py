"""Streamworld core: workloads (models, values, block partitions, alignment padding), the
multi-process driver, and helpers shared by the stream checks (C01 C02 C03 C05 C07 C15 C16 C17)."""
from __future__ import annotations

import base64, io, os, pickle, shutil, sys, tempfile, time, traceback, json
from concurrent.futures import ProcessPoolExecutor

VERIF = os.path.dirname(os.path.dirname(os.path.abspath(__file__)))
sys.path.insert(0, VERIF)
from gen import model as M, values as V, refcodec as R  # noqa: E402
from gen.model import Prim  # noqa: E402
from streamworld import pynode as P  # noqa: E402

BUF = 65536   # size of the staging buffers in the shipped runtimes (documented nowhere; observed as a
              # delivery granularity of the real code through the simulated channel, see probe below)
PAD_STEP = "pad0"


def stream_package(seed: int, pad=True, cfg=None, for_cpp=False) -> M.Package:
    """A generated package for stream checks: optional leading `pad0: string` step per protocol, used as
    alignment padding so that buffer boundaries of the real, unmodified runtimes land inside later values."""
    rng = M.derive(seed, "swpkg")
    cfg = cfg or M.GenConfig.swarm(rng.fork("cfg"))
    cfg.n_protocols = (1, 2)
    if for_cpp:
        cfg.no_bool_vectors = True
    pkg = M.gen_package(rng.next(), cfg, targets=("python",))
    if pad:
        for d in pkg.defs():
            if isinstance(d, M.Protocol):
                d.steps.insert(0, (PAD_STEP, Prim("string"), False))
    return pkg


def flat_values(proto, vals):
    out = []
    for i, (name, t, stream) in enumerate(proto.steps):
        if stream:
            out += [(i, x) for x in vals[i]]
        else:
            out.append((i, vals[i]))
    return out


def unflatten(proto, flat):
    vals = [[] if s else None for _, _, s in proto.steps]
    for i, v in flat:
        if proto.steps[i][2]:
            vals[i].append(v)
        else:
            vals[i] = v
    return vals


def gen_values(env, ns, proto, rng, finite=False, big=False, items=(0, 6), pad_len=None):
    vg = V.ValueGen(env, rng, finite_only=finite, json_safe=finite, big=big)
    vals = []
    for name, t, stream in proto.steps:
        qt = M.qualify(t, ns)
        if name == PAD_STEP:
            vals.append("p" * (pad_len if pad_len is not None else rng.choice([0, 0, 1, 5])))
        elif stream:
            n = rng.randint(*items)
            vals.append([vg.gen(qt) for _ in range(n)])
        else:
            vals.append(vg.gen(qt))
    return vals


def lengthen(env, ns, proto, vals, rng, finite=False, prefer=None, cap=4000):
    """Lengthen one non-empty stream step (one named in `prefer` if possible) so that the encoded stream spans
    more than one 65536-byte staging buffer *after* values that were already handed out: a refill happens while
    the caller may still hold earlier items.  Returns the index of the lengthened step, or None."""
    sidx = [k for k, (_, _, s) in enumerate(proto.steps) if s and vals[k]]
    if not sidx:
        return None
    pref = [k for k in sidx if prefer and proto.steps[k][0] in prefer]
    k = rng.choice(pref) if pref and rng.chance(0.7) else rng.choice(sidx)
    qt = M.qualify(proto.steps[k][1], ns)
    one = bytearray()
    R.Codec(env).enc(qt, vals[k][0], one)
    reps = min(cap, max(1, (BUF + rng.randint(0, 3000)) // max(1, len(one))))
    vg = V.ValueGen(env, rng, finite_only=finite, json_safe=finite)
    vals[k] = vals[k] + [vg.gen(qt) for _ in range(reps)]
    return k


def gen_partitions(proto, vals, rng):
    parts = {}
    for i, (name, t, stream) in enumerate(proto.steps):
        if not stream:
            continue
        n, part = len(vals[i]), []
        while n > 0:
            k = rng.choice([1, 1, 2, 3, n, rng.randint(1, n)])
            k = min(k, n)
            part.append(k)
            n -= k
        parts[i] = part
    return parts


def flat_equal(env, ns, proto, want, got, numeric=False):
    """'' if the delivered flat list equals the expected one, else a description of the first difference."""
    for k, ((i, a), (j, b)) in enumerate(zip(want, got)):
        if i != j:
            return "value #%d belongs to step %s, expected step %s" % (k, proto.steps[j][0], proto.steps[i][0])
        qt = M.qualify(proto.steps[i][1], ns)
        if not V.veq(env, qt, a, b, numeric):
            return "value #%d (step %s): %s" % (k, proto.steps[i][0], V.first_diff(env, qt, a, b, "", numeric)[:300])
    if len(want) != len(got):
        return "delivered %d values, expected %d" % (len(got), len(want))
    return ""


def is_prefix(env, ns, proto, want, got, numeric=False):
    if len(got) > len(want):
        return "delivered %d values but only %d were written" % (len(got), len(want))
    return flat_equal(env, ns, proto, want[:len(got)], got, numeric)


class LogBytesIO(io.BytesIO):
    """BytesIO that records where the reader's refills start (reach probe: value straddles a refill)."""

    def __init__(self, data):
        super().__init__(data)
        self.fills = []

    def readinto(self, b):
        pos = self.tell()
        n = super().readinto(b)
        self.fills.append((pos, n))
        return n


def pack_pkg(pkg) -> str:
    return base64.b64encode(pickle.dumps(pkg)).decode()


def unpack_pkg(s: str):
    return pickle.loads(base64.b64decode(s))


def pack(obj) -> str:
    return base64.b64encode(pickle.dumps(obj)).decode()


def unpack(s: str):
    return pickle.loads(base64.b64decode(s))


# ----------------------------------------------------------------------------------------
# Multi-process driver: one task = one model; a task runs every pipeline of one check on it
# ----------------------------------------------------------------------------------------

_WORK = {}


def _init_worker(yardl_bin, workroot):
    _WORK["yardl"] = yardl_bin
    _WORK["root"] = workroot
    import warnings
    warnings.filterwarnings("ignore")
    os.environ["PYTHONHASHSEED"] = "0"
    # generated Python that asks for an absurd amount of memory gets MemoryError (an error it reports)
    import resource
    # (the soft limit only: a child that needs more - a sanitizer build reserves terabytes of address space - can lift it again)
    resource.setrlimit(resource.RLIMIT_AS, (12 << 30, resource.getrlimit(resource.RLIMIT_AS)[1]))


def _run_task(args):
    modname, fn, task = args
    import importlib
    mod = importlib.import_module(modname)
    t0 = time.time()
    try:
        out = getattr(mod, fn)(task, _WORK["yardl"], _WORK["root"])
        out["wall"] = time.time() - t0
        return out
    except P.GeneratorRejected as e:
        return {"rejected": str(e)[-300:], "task": task, "wall": time.time() - t0}
    except BaseException as e:  # noqa
        return {"trouble": "%s: %s\n%s" % (type(e).__name__, e, traceback.format_exc()[-2500:]), "task": task, "wall": time.time() - t0}


class Driver:
    def __init__(self, repo="/repo", workers=None):
        os.makedirs(os.path.join(VERIF, "build"), exist_ok=True)
        self.dir = tempfile.mkdtemp(prefix="sw-", dir=os.path.join(VERIF, "build"))
        self.yardl = P.build_yardl(repo, self.dir)
        self.workroot = os.path.join(self.dir, "w")
        os.makedirs(self.workroot)
        self.workers = workers or int(os.environ.get("VERIF_JOBS", "0")) or os.cpu_count() or 4
        self.pool = ProcessPoolExecutor(max_workers=self.workers, initializer=_init_worker, initargs=(self.yardl, self.workroot))

    def map(self, modname, fn, tasks):
        return self.pool.map(_run_task, [(modname, fn, t) for t in tasks], chunksize=1)

    def close(self):
        self.pool.shutdown(wait=True, cancel_futures=True)
        shutil.rmtree(self.dir, ignore_errors=True)


def local_context(repo="/repo"):
    """For replays: build yardl, return (yardl_bin, workroot, cleanup)."""
    d = tempfile.mkdtemp(prefix="swr-", dir=os.path.join(VERIF, "build"))
    y = P.build_yardl(repo, d)
    w = os.path.join(d, "w")
    os.makedirs(w)
    return y, w, (lambda: shutil.rmtree(d, ignore_errors=True))
