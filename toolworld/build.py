#!/usr/bin/env python3
"""Build the toolworld simulator binary from /repo's current working tree.

    build.py <outdir>   ->  <outdir>/sim.test

Steps: scratch copy of tooling/ (outside /repo and /verif), add verifsim packages, generate
re-export files, rewrite imports / go statements / time.AfterFunc, drop the harness test into
internal/cmd, `go test -c` with the runtime overlay.  Exit 2 on any build trouble.
"""
import os, shutil, subprocess, sys, tempfile, time

HERE = os.path.dirname(os.path.abspath(__file__))
VERIF = os.path.dirname(HERE)
REPO = os.environ.get("VERIF_REPO", "/repo")
GO = os.environ.get("VERIF_GO", "go1.26.8")

def env():
    e = dict(os.environ)
    e.update(GOFLAGS="-mod=mod", GOPROXY="off", GOSUMDB="off", GOTOOLCHAIN="local", CGO_ENABLED="0")
    return e

def run(cmd, cwd=None, quiet=True):
    p = subprocess.run(cmd, cwd=cwd, env=env(), capture_output=True, text=True)
    if p.returncode != 0:
        sys.stderr.write("build.py: command failed: %s\n%s\n%s\n" % (" ".join(cmd), p.stdout[-4000:], p.stderr[-8000:]))
        sys.exit(2)
    return p.stdout

def tools(bindir):
    os.makedirs(bindir, exist_ok=True)
    for name in ("shimgen", "rewrite"):
        out = os.path.join(bindir, name)
        src = os.path.join(HERE, name, "main.go")
        if not os.path.exists(out) or os.path.getmtime(out) < os.path.getmtime(src):
            run([GO, "build", "-o", out, src], cwd=os.path.join(HERE, name))
    return bindir

def overrides(path):
    for line in open(path):
        if line.startswith("// OVERRIDES:"):
            return line.split(":", 1)[1].strip()
    return ""

def build(outdir, repo=REPO, keep_scratch=False):
    t0 = time.time()
    os.makedirs(outdir, exist_ok=True)
    bindir = tools(os.path.join(VERIF, "build", "bin"))
    ovdir = os.path.join(VERIF, "build", "overlay")
    run([sys.executable, os.path.join(HERE, "mkoverlay.py"), ovdir])
    scratch = tempfile.mkdtemp(prefix="verif-tw-")
    try:
        tooling = os.path.join(scratch, "tooling")
        shutil.copytree(os.path.join(repo, "tooling"), tooling, symlinks=True)
        vs = os.path.join(tooling, "verifsim")
        shutil.copytree(os.path.join(HERE, "verifsim"), vs)
        for pkg, ipath, fname in (("os", "os", "os.go"), ("filepath", "path/filepath", "filepath.go"),
                                  ("koanf", "github.com/knadh/koanf/v2", "koanf.go"), ("sync", "sync", "sync.go")):
            ov = overrides(os.path.join(vs, pkg, fname))
            p = subprocess.run([os.path.join(bindir, "shimgen"), ipath, pkg, os.path.join(vs, pkg, "zz_alias.go"), ov],
                               cwd=tooling, env=env(), capture_output=True, text=True)
            if p.returncode != 0:
                sys.stderr.write("build.py: shimgen %s failed:\n%s\n" % (ipath, p.stderr[-4000:]))
                sys.exit(2)
        out = run([os.path.join(bindir, "rewrite"), tooling])
        shutil.copy(os.path.join(HERE, "harness_test.go.tmpl"), os.path.join(tooling, "internal", "cmd", "verif_harness_test.go"))
        binpath = os.path.join(outdir, "sim.test")
        run([GO, "test", "-c", "-vet=off", "-overlay", os.path.join(ovdir, "overlay.json"), "-o", binpath, "./internal/cmd"], cwd=tooling)
        return binpath, out, time.time() - t0
    finally:
        if keep_scratch:
            sys.stderr.write("scratch kept at %s\n" % scratch)
        else:
            shutil.rmtree(scratch, ignore_errors=True)

if __name__ == "__main__":
    b, out, dt = build(sys.argv[1], keep_scratch="--keep" in sys.argv)
    sys.stdout.write(out)
    print("built %s in %.1fs" % (b, dt))
