#!/usr/bin/env python3
"""Generate a `go build -overlay` file set that puts the Go runtime's randomness
(map hash seeds, iteration offsets, hash keys) behind VERIF_MAPSEED.

Only runtime/rand.go is replaced.  With VERIF_MAPSEED unset the patched runtime behaves
exactly like the stock one.  Fails loudly (exit 2) if an anchor is missing.
"""
import json, os, subprocess, sys

def die(msg):
    print("mkoverlay: " + msg, file=sys.stderr)
    sys.exit(2)

def patch(src: str) -> str:
    def rep(s, old, new, count=1):
        if s.count(old) != count:
            die("anchor %r found %d times, expected %d" % (old[:60], s.count(old), count))
        return s.replace(old, new)

    src = rep(src, '\t"internal/runtime/math"\n', '\t"internal/runtime/atomic"\n\t"internal/runtime/math"\n')
    src = rep(src, 'func randinit() {\n\tlock(&globalRand.lock)\n',
              'func randinit() {\n\tverifRandInit()\n\tlock(&globalRand.lock)\n')
    src = rep(src, 'func bootstrapRand() uint64 {\n',
              'func bootstrapRand() uint64 {\n\tif verifRandState != 0 {\n\t\treturn verifNext()\n\t}\n')
    src = rep(src, 'func rand() uint64 {\n',
              'func rand() uint64 {\n\tif verifRandState != 0 {\n\t\treturn verifNext()\n\t}\n')
    src += r'''

// ---- verif overlay: seeded randomness (inactive unless VERIF_MAPSEED is set) ----

var verifRandState uint64

func verifRandInit() {
	const key = "VERIF_MAPSEED="
	for n := int32(0); argv_index(argv, argc+1+n) != nil; n++ {
		s := gostringnocopy(argv_index(argv, argc+1+n))
		if len(s) > len(key) && s[:len(key)] == key {
			var v uint64
			for i := len(key); i < len(s); i++ {
				c := s[i]
				if c < '0' || c > '9' {
					break
				}
				v = v*10 + uint64(c-'0')
			}
			verifRandState = (v*0x9E3779B97F4A7C15 + 0x632BE59BD9B4E019) | 1
			return
		}
	}
}

//go:nosplit
func verifNext() uint64 {
	z := atomic.Xadd64(&verifRandState, -0x61c8864680b583eb)
	z = (z ^ (z >> 30)) * 0xbf58476d1ce4e5b9
	z = (z ^ (z >> 27)) * 0x94d049bb133111eb
	return z ^ (z >> 31)
}
'''
    return src

def main():
    out = sys.argv[1]
    go = os.environ.get("VERIF_GO", "go1.26.8")
    env = dict(os.environ, GOTOOLCHAIN="local")
    goroot = subprocess.run([go, "env", "GOROOT"], capture_output=True, text=True, env=env).stdout.strip()
    if not goroot:
        die("cannot find GOROOT of " + go)
    orig = os.path.join(goroot, "src", "runtime", "rand.go")
    os.makedirs(out, exist_ok=True)
    dst = os.path.join(out, "runtime_rand.go")
    with open(orig) as f:
        src = f.read()
    with open(dst, "w") as f:
        f.write(patch(src))
    with open(os.path.join(out, "overlay.json"), "w") as f:
        json.dump({"Replace": {orig: dst}}, f)
    print(os.path.join(out, "overlay.json"))

if __name__ == "__main__":
    main()
