// rewrite instruments a scratch copy of yardl's tooling/ for the simulator:
//
//   - import paths of os, path/filepath, os/exec, sync, fsnotify and koanf are replaced by the
//     verifsim packages of the same name;
//   - `go f(x)` becomes verifsimcore.Go(...) with the arguments evaluated at the go statement,
//     so that a child goroutine is named deterministically and parked at birth;
//   - time.AfterFunc becomes verifsimcore.AfterFunc.
//
// Nothing else in the source is touched.  Usage: rewrite <dir of scratch tooling>
package main

import (
	"fmt"
	"go/ast"
	"go/parser"
	"go/token"
	"os"
	"path/filepath"
	"sort"
	"strconv"
	"strings"
)

const mod = "github.com/microsoft/yardl/tooling/verifsim/"

var importMap = map[string]string{
	"os":                            mod + "os",
	"path/filepath":                 mod + "filepath",
	"os/exec":                       mod + "exec",
	"sync":                          mod + "sync",
	"github.com/fsnotify/fsnotify":  mod + "fsnotify",
	"github.com/knadh/koanf/v2":     mod + "koanf",
}

type edit struct {
	from, to int
	text     string
}

func main() {
	root := os.Args[1]
	stats := map[string]int{}
	err := filepath.Walk(root, func(p string, info os.FileInfo, err error) error {
		if err != nil {
			return err
		}
		if info.IsDir() {
			if info.Name() == "verifsim" {
				return filepath.SkipDir
			}
			return nil
		}
		if !strings.HasSuffix(p, ".go") || strings.HasSuffix(p, "_test.go") {
			return nil
		}
		for iter := 0; iter < 6; iter++ {
			changed, err := rewriteFile(p, stats)
			if err != nil {
				return fmt.Errorf("%s: %w", p, err)
			}
			if !changed {
				break
			}
		}
		return nil
	})
	if err != nil {
		fmt.Fprintln(os.Stderr, "rewrite:", err)
		os.Exit(2)
	}
	keys := make([]string, 0, len(stats))
	for k := range stats {
		keys = append(keys, k)
	}
	sort.Strings(keys)
	for _, k := range keys {
		fmt.Printf("rewrite: %s=%d\n", k, stats[k])
	}
}

func rewriteFile(p string, stats map[string]int) (bool, error) {
	src, err := os.ReadFile(p)
	if err != nil {
		return false, err
	}
	fset := token.NewFileSet()
	f, err := parser.ParseFile(fset, p, src, parser.ParseComments)
	if err != nil {
		return false, err
	}
	off := func(pos token.Pos) int { return fset.Position(pos).Offset }
	text := func(n ast.Node) string { return string(src[off(n.Pos()):off(n.End())]) }
	var edits []edit
	needCore := false
	hasCore := false

	timeName := ""
	for _, im := range f.Imports {
		ip, _ := strconv.Unquote(im.Path.Value)
		if ip == "time" {
			timeName = "time"
			if im.Name != nil {
				timeName = im.Name.Name
			}
		}
		if ip == mod+"sim" {
			hasCore = true
		}
		if np, ok := importMap[ip]; ok {
			edits = append(edits, edit{off(im.Path.Pos()), off(im.Path.End()), strconv.Quote(np)})
			stats["import:"+ip]++
		}
	}

	// outermost go statements and time.AfterFunc selectors
	var goDepth int
	var visit func(n ast.Node) bool
	_ = goDepth
	ast.Inspect(f, visit0(&edits, &needCore, stats, timeName, off, text))

	if len(edits) == 0 {
		return false, nil
	}
	if stats["_afterfunc_in_file"] > 0 {
		edits = append(edits, edit{len(src), len(src), "\n\nvar _ " + timeName + ".Duration\n"})
		stats["_afterfunc_in_file"] = 0
	}
	if needCore && !hasCore {
		// a separate import declaration right after the package clause
		pos := off(f.Name.End())
		edits = append(edits, edit{pos, pos, "\n\nimport verifsimcore " + strconv.Quote(mod+"sim")})
	}
	sort.Slice(edits, func(i, j int) bool { return edits[i].from > edits[j].from })
	out := string(src)
	last := len(out) + 1
	for _, e := range edits {
		if e.to > last {
			continue // overlapping (nested) edit: handled by the next iteration
		}
		out = out[:e.from] + e.text + out[e.to:]
		last = e.from
	}
	_ = visit
	return true, os.WriteFile(p, []byte(out), 0o644)
}

func visit0(edits *[]edit, needCore *bool, stats map[string]int, timeName string, off func(token.Pos) int, text func(ast.Node) string) func(ast.Node) bool {
	return func(n ast.Node) bool {
		switch s := n.(type) {
		case *ast.GoStmt:
			call := s.Call
			var b strings.Builder
			if fl, ok := call.Fun.(*ast.FuncLit); ok && len(call.Args) == 0 {
				b.WriteString("verifsimcore.Go(" + text(fl) + ")")
			} else {
				b.WriteString("verifsimcore.Go(func() func() { verifF := " + text(call.Fun) + "; ")
				var names []string
				for i, a := range call.Args {
					inline := false
					switch x := a.(type) {
					case *ast.BasicLit:
						inline = true
					case *ast.Ident:
						if x.Name == "nil" || x.Name == "true" || x.Name == "false" {
							inline = true
						}
					}
					if inline {
						names = append(names, text(a))
						continue
					}
					nm := fmt.Sprintf("verifA%d", i)
					b.WriteString(nm + " := " + text(a) + "; ")
					names = append(names, nm)
				}
				if call.Ellipsis.IsValid() && len(names) > 0 {
					names[len(names)-1] += "..."
				}
				b.WriteString("return func() { verifF(" + strings.Join(names, ", ") + ") } }())")
			}
			*edits = append(*edits, edit{off(s.Pos()), off(s.End()), b.String()})
			*needCore = true
			stats["go-stmt"]++
			return false // nested ones are handled by the next iteration
		case *ast.SelectorExpr:
			if id, ok := s.X.(*ast.Ident); ok && timeName != "" && id.Name == timeName && s.Sel.Name == "AfterFunc" && id.Obj == nil {
				*edits = append(*edits, edit{off(s.Pos()), off(s.End()), "verifsimcore.AfterFunc"})
				*needCore = true
				stats["time.AfterFunc"]++
				stats["_afterfunc_in_file"]++
			}
		}
		return true
	}
}
