#!/usr/bin/env python3
"""Determinism gate for toolworld: N watch-mode specs, each executed in 3 fresh processes at
GOMAXPROCS 1/4/16; the complete result records (op log, schedule trace, final tree, stderr) must
be byte-identical.  Exit 0 = deterministic, 2 = divergence or harness trouble."""
import os, sys, json, hashlib
sys.path.insert(0, os.path.join(os.path.dirname(os.path.abspath(__file__)), ".."))
sys.path.insert(0, os.path.join(os.path.dirname(os.path.abspath(__file__)), "..", "checks"))
from toolworld import tw


def selftest(sim, n=32, seed=777, verbose=True):
    import importlib
    # the C20 workload generator is reused (importing the check does not run it)
    mod = vars(importlib.import_module("checks.C20"))
    bad = []

    def one(i):
        doc = mod["make_case"](seed, i)
        spec = {"mode": "watch", "files": doc["files"], "cwd": doc["cwd"], "args": ["generate", "--watch"], "edits": doc["edits"],
                "faults": doc["faults"], "max_steps": 30000, "settle_ms": 60000, "full_ops": True}
        spec.update(doc["sched"])
        hs = []
        for gmp in (1, 4, 16):
            r = sim.run(json.loads(json.dumps(spec)), mapseed=doc["mapseed"], gomaxprocs=gmp)
            hs.append(hashlib.sha256(json.dumps(r, sort_keys=True).encode()).hexdigest())
        return i, hs

    for i, hs in sim.map(range(n), one):
        if len(set(hs)) != 1:
            bad.append((i, hs))
    if verbose:
        print("toolworld determinism self-test: %d specs x 3 processes (GOMAXPROCS 1/4/16): %s" % (n, "identical" if not bad else "DIVERGED %r" % bad[:3]))
    return not bad


if __name__ == "__main__":
    sim = tw.Sim(os.environ.get("VERIF_REPO", "/repo"))
    n = int(sys.argv[1]) if len(sys.argv) > 1 else 32
    sys.exit(0 if selftest(sim, n) else 2)
