"""Toolworld runner: builds the simulator from /repo's working tree and executes specs, one OS
process per simulated run."""
from __future__ import annotations

import atexit, json, os, shutil, subprocess, sys, tempfile, time
from concurrent.futures import ThreadPoolExecutor

HERE = os.path.dirname(os.path.abspath(__file__))
VERIF = os.path.dirname(HERE)
sys.path.insert(0, HERE)
import build as _build  # noqa: E402

NCPU = int(os.environ.get("VERIF_JOBS", "0")) or os.cpu_count() or 4


class HarnessTrouble(Exception):
    pass


class Sim:
    def __init__(self, repo="/repo"):
        self.dir = tempfile.mkdtemp(prefix="run-", dir=_ensure(os.path.join(VERIF, "build")))
        atexit.register(shutil.rmtree, self.dir, True)
        self.bin, self.rewrite_log, self.build_s = _build.build(self.dir, repo=repo)
        self.work = os.path.join(self.dir, "w")
        os.makedirs(self.work)
        self.n = 0
        self.wall = 0.0
        self.budget_retries = 0
        self.watchdog_retries = 0

    def run(self, spec: dict, mapseed: int = 1, timeout: float = 120.0, tag: str = "", gomaxprocs: int = 1) -> dict:
        """Execute one simulated process.  Returns the result record; a dead process is reported as
        {"status": "process_died", "rc": ..., "stderr_tail": ...} (it may be the system under test
        that died: zerolog's Fatal calls the real os.Exit; a Go panic in a goroutine exits 2)."""
        self.n += 1
        base = os.path.join(self.work, "%s%d-%d" % (tag, os.getpid(), self._next()))
        sp, op = base + ".spec.json", base + ".out.json"
        with open(sp, "w") as f:
            json.dump(spec, f)
        env = dict(os.environ, VERIF_SPEC=sp, VERIF_OUT=op, VERIF_MAPSEED=str(mapseed), GOMAXPROCS=str(gomaxprocs), GOGC="off")
        t0 = time.time()
        try:
            p = subprocess.run([self.bin, "-test.run", "^TestVerifSim$", "-test.timeout", "0"], env=env,
                               stdout=subprocess.DEVNULL, stderr=subprocess.PIPE, timeout=timeout)
        except subprocess.TimeoutExpired:
            _rm(sp, op)
            if not spec.get("_second_try"):
                # a machine that is heavily loaded (other checks, compilers) can starve one process for minutes: once more,
                # with five times the patience, before the run is given up as harness trouble
                self.watchdog_retries += 1
                return self.run(dict(spec, _second_try=True), mapseed=mapseed, timeout=timeout * 5, tag=tag, gomaxprocs=gomaxprocs)
            keep = os.path.join(VERIF, "build", "watchdog-%d-%d.spec.json" % (os.getpid(), self.n))
            try:
                spec2 = dict(spec, _mapseed=mapseed)
                with open(keep, "w") as f:
                    json.dump(spec2, f)
                sys.stderr.write("simulator watchdog: spec kept at %s\n" % keep)
            except Exception:  # noqa
                pass
            _rm(sp, op)
            raise HarnessTrouble("simulator watchdog: no result within %.0fs (spec seed %s)" % (timeout, spec.get("seed")))
        self.wall += time.time() - t0
        try:
            if p.returncode == 0 and os.path.exists(op):
                with open(op) as f:
                    res = json.load(f)
                if res.get("status") == "steps_exceeded" and not spec.get("_final_budget"):
                    # the step budget is the harness's, not the property's: a run that is merely long (many generated
                    # files x many regenerations) is run again - same spec, same map seed, hence the same execution -
                    # with fifteen times the budget, and only what is still running then is reported as not quiescent
                    self.budget_retries += 1
                    big = dict(spec, max_steps=15 * (spec.get("max_steps") or 20000), _final_budget=True)
                    return self.run(big, mapseed=mapseed, timeout=timeout * 6, tag=tag, gomaxprocs=gomaxprocs)
                return res
            err = p.stderr.decode("utf-8", "replace")
            if p.returncode == 3:
                raise HarnessTrouble("simulator harness failure:\n" + err[-3000:])
            return {"status": "process_died", "rc": p.returncode, "stderr_tail": err[-6000:]}
        finally:
            _rm(sp, op)

    _ctr = 0

    def _next(self):
        Sim._ctr += 1
        return Sim._ctr

    def map(self, jobs, fn, workers=NCPU):
        """Run fn(job) for every job on a thread pool (each call spawns simulator processes)."""
        with ThreadPoolExecutor(max_workers=workers) as ex:
            return list(ex.map(fn, jobs))


def _rm(*paths):
    for p in paths:
        try:
            os.remove(p)
        except OSError:
            pass


def _ensure(d):
    os.makedirs(d, exist_ok=True)
    return d


def oneshot_spec(files: dict, cwd: str, args=("generate",), **kw) -> dict:
    s = {"mode": "oneshot", "files": files, "cwd": cwd, "args": list(args), "gpolicy": "rtc", "seed": 1}
    s.update(kw)
    return s


def tree_files(tree: dict) -> dict:
    """Regular files of a result tree: {path: content}."""
    return {p: e.get("d", "") for p, e in tree.items() if e["k"] == "f"}


def tree_dirs(tree: dict) -> list:
    return sorted(p for p, e in tree.items() if e["k"] == "d")


def tree_diff(a: dict, b: dict, prefix: str = "") -> list:
    """Differences between two result trees (kinds, contents, link targets), mtimes ignored."""
    out = []
    for p in sorted(set(a) | set(b)):
        if prefix and not p.startswith(prefix):
            continue
        ea, eb = a.get(p), b.get(p)
        if ea is None:
            out.append(("created", p))
        elif eb is None:
            out.append(("removed", p))
        elif ea["k"] != eb["k"] or ea.get("d", "") != eb.get("d", "") or ea.get("t", "") != eb.get("t", ""):
            out.append(("changed", p))
    return out
