// Package exec: the only external program yardl runs is git, for remote imports.  Remote
// imports are outside every claimed property, so git fails like an unreachable network.
package exec

import (
	"errors"
	"io"
	real "os/exec"
	"strings"

	"github.com/microsoft/yardl/tooling/verifsim/sim"
)

type Error = real.Error
type ExitError = real.ExitError

var ErrNotFound = real.ErrNotFound
var ErrDot = real.ErrDot

type Cmd struct {
	Path   string
	Args   []string
	Env    []string
	Dir    string
	Stdin  io.Reader
	Stdout io.Writer
	Stderr io.Writer
}

func Command(name string, arg ...string) *Cmd {
	return &Cmd{Path: name, Args: append([]string{name}, arg...)}
}

func (c *Cmd) String() string { return strings.Join(c.Args, " ") }

func (c *Cmd) Run() error {
	sim.Yield("exec " + c.String())
	sim.Probe("exec_attempted")
	if c.Stderr != nil {
		io.WriteString(c.Stderr, "fatal: unable to access remote: Could not resolve host (simulated: no network)\n")
	}
	return errors.New("exit status 128")
}

func (c *Cmd) Start() error                    { return c.Run() }
func (c *Cmd) Wait() error                     { return errors.New("exec: not started") }
func (c *Cmd) Output() ([]byte, error)         { return nil, c.Run() }
func (c *Cmd) CombinedOutput() ([]byte, error) { return nil, c.Run() }

func LookPath(file string) (string, error) {
	return "", &real.Error{Name: file, Err: real.ErrNotFound}
}
