// Package filepath: Walk, WalkDir, Abs and Glob go to the simulated file system; the rest
// is re-exported from the real package (zz_alias.go, generated).
package filepath

import (
	"io/fs"
	real "path/filepath"

	"github.com/microsoft/yardl/tooling/verifsim/sim"
)

// OVERRIDES: Walk,WalkDir,Abs,Glob,EvalSymlinks

func Walk(root string, fn real.WalkFunc) error {
	return sim.Walk(root, func(p string, info fs.FileInfo, err error) error { return fn(p, info, err) })
}

func WalkDir(root string, fn fs.WalkDirFunc) error {
	return sim.Walk(root, func(p string, info fs.FileInfo, err error) error {
		var d fs.DirEntry
		if info != nil {
			d = info.(fs.DirEntry)
		}
		return fn(p, d, err)
	})
}

func Abs(path string) (string, error) {
	if real.IsAbs(path) {
		return real.Clean(path), nil
	}
	wd, err := sim.Getwd()
	if err != nil {
		return "", err
	}
	return real.Join(wd, path), nil
}

// EvalSymlinks resolves the links of the simulated file system (for a relative path, relative to the simulated working
// directory, and the result is made relative to it again when it lies below it, as the real function keeps relative paths relative).
func EvalSymlinks(path string) (string, error) {
	abs := sim.TheFS.Abs(path)
	res, er := sim.TheFS.Resolve(abs, 0)
	if er != 0 {
		return "", &fs.PathError{Op: "lstat", Path: path, Err: er}
	}
	if real.IsAbs(path) {
		return res, nil
	}
	if wd, er2 := sim.TheFS.Resolve(sim.TheFS.Cwd, 0); er2 == 0 {
		if rel, err := real.Rel(wd, res); err == nil {
			return rel, nil
		}
	}
	return res, nil
}

func Glob(pattern string) ([]string, error) {
	dir, file := real.Split(pattern)
	if dir == "" {
		dir = "."
	}
	ents, err := sim.ReadDir(dir)
	if err != nil {
		return nil, nil
	}
	var out []string
	for _, e := range ents {
		ok, err := real.Match(file, e.Name())
		if err != nil {
			return nil, err
		}
		if ok {
			out = append(out, real.Join(dir, e.Name()))
		}
	}
	return out, nil
}
