// Package fsnotify is the simulated file-system notifier: same surface as
// github.com/fsnotify/fsnotify v1.9 as far as yardl (and plausible edits to it) use it.
// Events are queued by mutations of the simulated file system and delivered only by the
// simulator's driver.
package fsnotify

import (
	"errors"
	"strings"

	"github.com/microsoft/yardl/tooling/verifsim/sim"
)

type Op uint32

const (
	Create Op = 1 << iota
	Write
	Remove
	Rename
	Chmod
)

func (o Op) Has(h Op) bool { return o&h != 0 }
func (o Op) String() string {
	var b []string
	for _, p := range []struct {
		o Op
		s string
	}{{Create, "CREATE"}, {Write, "WRITE"}, {Remove, "REMOVE"}, {Rename, "RENAME"}, {Chmod, "CHMOD"}} {
		if o.Has(p.o) {
			b = append(b, p.s)
		}
	}
	if len(b) == 0 {
		return "[no events]"
	}
	return strings.Join(b, "|")
}

type Event struct {
	Name string
	Op   Op
}

func (e Event) Has(op Op) bool { return e.Op.Has(op) }
func (e Event) String() string { return e.Op.String() + " \"" + e.Name + "\"" }

var (
	ErrNonExistentWatch = errors.New("fsnotify: can't remove non-existent watch")
	ErrEventOverflow    = errors.New("fsnotify: queue or buffer overflow")
	ErrClosed           = errors.New("fsnotify: watcher already closed")
	ErrUnsupported      = errors.New("fsnotify: not supported with this backend")
)

type Watcher struct {
	Events chan Event
	Errors chan error
	st     *sim.WatcherState
}

func NewWatcher() (*Watcher, error) { return NewBufferedWatcher(0) }

func NewBufferedWatcher(sz uint) (*Watcher, error) {
	w := &Watcher{Events: make(chan Event, sz), Errors: make(chan error)}
	w.st = sim.NewWatcherState()
	w.st.Send = func(name string, op int) bool {
		select {
		case w.Events <- Event{Name: name, Op: Op(op)}:
			return true
		default:
			return false
		}
	}
	w.st.SendErr = func(err error) bool {
		select {
		case w.Errors <- ErrEventOverflow:
			return true
		default:
			return false
		}
	}
	w.st.CloseCh = func() {
		close(w.Events)
		close(w.Errors)
	}
	return w, nil
}

type addOpt func()

func WithBufferSize(bytes int) addOpt { return func() {} }

func (w *Watcher) Add(path string) error { return w.AddWith(path) }
func (w *Watcher) AddWith(path string, opts ...addOpt) error {
	if w.st.Closed {
		return ErrClosed
	}
	return w.st.Add(path)
}
func (w *Watcher) Remove(path string) error {
	if w.st.Closed {
		return nil
	}
	if err := w.st.Remove(path); err != nil {
		return ErrNonExistentWatch
	}
	return nil
}
func (w *Watcher) WatchList() []string {
	if w.st.Closed {
		return nil
	}
	return w.st.List()
}
func (w *Watcher) Close() error {
	w.st.Close()
	return nil
}
