// Package koanf wraps github.com/knadh/koanf/v2: every method yardl's shared instance is
// reached through yields to the scheduler first, which makes the package-level instance an
// interleaving point.  Behaviour is the real koanf's.
package koanf

import (
	real "github.com/knadh/koanf/v2"

	"github.com/microsoft/yardl/tooling/verifsim/sim"
)

// OVERRIDES: Koanf,New,NewWithConf

type Koanf struct {
	*real.Koanf
}

func New(delim string) *Koanf {
	sim.Yield("koanf.New")
	sim.Probe("koanf_new")
	return &Koanf{real.New(delim)}
}

func NewWithConf(conf real.Conf) *Koanf {
	sim.Yield("koanf.NewWithConf")
	sim.Probe("koanf_new")
	return &Koanf{real.NewWithConf(conf)}
}

func (k *Koanf) Load(p real.Provider, pa real.Parser, opts ...real.Option) error {
	sim.Yield("koanf.Load")
	return k.Koanf.Load(p, pa, opts...)
}

func (k *Koanf) Exists(path string) bool {
	sim.Yield("koanf.Exists")
	return k.Koanf.Exists(path)
}

func (k *Koanf) Set(key string, val interface{}) error {
	sim.Yield("koanf.Set")
	return k.Koanf.Set(key, val)
}

func (k *Koanf) Unmarshal(path string, o interface{}) error {
	sim.Yield("koanf.Unmarshal")
	return k.Koanf.Unmarshal(path, o)
}

func (k *Koanf) UnmarshalWithConf(path string, o interface{}, c real.UnmarshalConf) error {
	sim.Yield("koanf.UnmarshalWithConf")
	return k.Koanf.UnmarshalWithConf(path, o, c)
}

func (k *Koanf) Delete(path string) {
	sim.Yield("koanf.Delete")
	k.Koanf.Delete(path)
}
