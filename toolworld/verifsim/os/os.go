// Package os is the simulated replacement for the standard os package inside the scratch
// copy of yardl's tooling.  Everything that touches the file system or the process goes to
// verifsim/sim; everything else is re-exported from the real package (zz_alias.go, generated).
package os

import (
	"io/fs"
	real "os"
	"syscall"

	"github.com/microsoft/yardl/tooling/verifsim/sim"
)

// OVERRIDES: File,Stdin,Stdout,Stderr,Getwd,Chdir,Stat,Lstat,Open,OpenFile,Create,ReadFile,WriteFile,Mkdir,MkdirAll,ReadDir,Remove,RemoveAll,Rename,Symlink,Readlink,UserHomeDir,UserCacheDir,UserConfigDir,Exit,Chmod,NewFile,Pipe,StartProcess,ProcAttr,DirFS,CopyFS,Root,OpenRoot,OpenInRoot,SameFile,CreateTemp,MkdirTemp,Truncate,Link,Chtimes,Chown,Lchown,FindProcess,Process,ProcessState,TempDir

type File struct {
	h    *sim.Handle
	real *real.File
	name string
}

type stdStream struct{ which int }

var (
	Stdin  = &File{real: real.Stdin, name: "/dev/stdin"}
	Stdout = &File{real: real.Stdout, name: "/dev/stdout"}
	Stderr = &File{real: real.Stderr, name: "/dev/stderr"}
)

func (f *File) Name() string { return f.name }

func (f *File) Read(b []byte) (int, error) {
	if f.h != nil {
		return f.h.Read(b)
	}
	return 0, fs.ErrClosed
}

func (f *File) Write(b []byte) (int, error) {
	if f.h != nil {
		return f.h.Write(b)
	}
	switch f {
	case Stderr:
		sim.StderrBuf.Write(b)
		return len(b), nil
	case Stdout:
		sim.StdoutBuf.Write(b)
		return len(b), nil
	}
	return 0, fs.ErrClosed
}

func (f *File) WriteString(s string) (int, error) { return f.Write([]byte(s)) }

func (f *File) Close() error {
	if f.h != nil {
		return f.h.Close()
	}
	return nil
}

func (f *File) Sync() error { return nil }

func (f *File) Fd() uintptr {
	if f.real != nil {
		return f.real.Fd()
	}
	return ^uintptr(0)
}

func (f *File) Stat() (fs.FileInfo, error) {
	if f.h != nil {
		return f.h.Stat()
	}
	return f.real.Stat()
}

func (f *File) Seek(off int64, whence int) (int64, error) {
	if f.h != nil {
		return f.h.Seek(off, whence)
	}
	return 0, fs.ErrInvalid
}

func (f *File) Truncate(size int64) error {
	if f.h != nil {
		return f.h.Truncate(size)
	}
	return fs.ErrInvalid
}

func (f *File) ReadDir(n int) ([]fs.DirEntry, error) {
	if f.h != nil {
		return f.h.ReadDirEntries()
	}
	return nil, fs.ErrInvalid
}

func (f *File) Readdirnames(n int) ([]string, error) {
	ents, err := f.ReadDir(n)
	var out []string
	for _, e := range ents {
		out = append(out, e.Name())
	}
	return out, err
}

func (f *File) Chmod(mode fs.FileMode) error { return nil }

func (f *File) Chdir() error {
	if f.h == nil {
		return &fs.PathError{Op: "chdir", Path: f.name, Err: syscall.ENOTDIR}
	}
	return f.h.Chdir()
}

func wrap(h *sim.Handle, err error, name string) (*File, error) {
	if err != nil {
		return nil, err
	}
	return &File{h: h, name: name}, nil
}

func Open(name string) (*File, error) {
	h, err := sim.OpenFile(name, sim.O_RDONLY, 0)
	return wrap(h, err, name)
}

func Create(name string) (*File, error) {
	h, err := sim.OpenFile(name, sim.O_RDWR|sim.O_CREATE|sim.O_TRUNC, 0o666)
	return wrap(h, err, name)
}

func OpenFile(name string, flag int, perm fs.FileMode) (*File, error) {
	h, err := sim.OpenFile(name, flag, perm)
	return wrap(h, err, name)
}

func Getwd() (string, error)                              { return sim.Getwd() }
func Chdir(dir string) error                              { return sim.Chdir(dir) }
func Stat(name string) (fs.FileInfo, error)               { return sim.Stat(name) }
func Lstat(name string) (fs.FileInfo, error)              { return sim.Lstat(name) }
func ReadFile(name string) ([]byte, error)                { return sim.ReadFile(name) }
func WriteFile(name string, d []byte, p fs.FileMode) error { return sim.WriteFile(name, d, p) }
func Mkdir(name string, perm fs.FileMode) error           { return sim.Mkdir(name, perm) }
func MkdirAll(path string, perm fs.FileMode) error        { return sim.MkdirAll(path, perm) }
func ReadDir(name string) ([]fs.DirEntry, error)          { return sim.ReadDir(name) }
func Remove(name string) error                            { return sim.Remove(name) }
func RemoveAll(path string) error                         { return sim.RemoveAll(path) }
func Rename(oldpath, newpath string) error                { return sim.Rename(oldpath, newpath) }
func Symlink(oldname, newname string) error               { return sim.Symlink(oldname, newname) }
func Readlink(name string) (string, error)                { return sim.Readlink(name) }
func Chmod(name string, mode fs.FileMode) error           { return sim.Chmod(name, mode) }
func UserHomeDir() (string, error)                        { return "/home/sim", nil }
func UserCacheDir() (string, error)                       { return "/home/sim/.cache", nil }
func UserConfigDir() (string, error)                      { return "/home/sim/.config", nil }
func TempDir() string                                     { return "/tmp" }
func Exit(code int)                                       { sim.Exit(code) }
