// Package sim is the simulated operating system the yardl CLI runs in: an in-memory file
// system with a process-wide cwd, an fsnotify event queue, an operation log, a fault plan
// and a seeded scheduler that lets exactly one goroutine of the system under test run at a
// time.  It is copied into a scratch copy of tooling/ at check time; nothing here is
// committed to /repo.
package sim

import (
	"io/fs"
	"path"
	"sort"
	"strings"
	"syscall"
	"time"
)

type Kind int

const (
	KFile Kind = iota
	KDir
	KLink
)

type Node struct {
	Kind     Kind
	Data     []byte
	Target   string
	Children map[string]*Node
	Mode     fs.FileMode
	Mtime    time.Time
	Ino      int
}

type FS struct {
	Root    *Node
	Cwd     string
	nextIno int
}

func NewFS() *FS {
	f := &FS{Cwd: "/"}
	f.Root = f.newNode(KDir, 0o755)
	return f
}

func (f *FS) newNode(k Kind, mode fs.FileMode) *Node {
	f.nextIno++
	n := &Node{Kind: k, Mode: mode, Ino: f.nextIno, Mtime: now()}
	if k == KDir {
		n.Children = map[string]*Node{}
	}
	return n
}

// Abs resolves p against the process-wide cwd at the moment of the call.
func (f *FS) Abs(p string) string {
	if !strings.HasPrefix(p, "/") {
		p = f.Cwd + "/" + p
	}
	return path.Clean(p)
}

func split(abs string) []string {
	abs = strings.Trim(abs, "/")
	if abs == "" {
		return nil
	}
	return strings.Split(abs, "/")
}

// lookup walks abs; follows symlinks in intermediate components always, and in the last
// component when followLast is set.
func (f *FS) lookup(abs string, followLast bool, depth int) (*Node, syscall.Errno) {
	if depth > 16 {
		return nil, syscall.ELOOP
	}
	parts := split(abs)
	cur := f.Root
	curPath := ""
	for i, name := range parts {
		if cur.Kind != KDir {
			return nil, syscall.ENOTDIR
		}
		if len(name) > 255 {
			return nil, syscall.ENAMETOOLONG // (NAME_MAX)
		}
		child, ok := cur.Children[name]
		if !ok {
			return nil, syscall.ENOENT
		}
		last := i == len(parts)-1
		if child.Kind == KLink && (!last || followLast) {
			tgt := child.Target
			if !strings.HasPrefix(tgt, "/") {
				tgt = curPath + "/" + tgt
			}
			rest := strings.Join(parts[i+1:], "/")
			full := path.Clean(tgt + "/" + rest)
			return f.lookup(full, followLast, depth+1)
		}
		cur = child
		curPath = curPath + "/" + name
	}
	return cur, 0
}

// Resolve returns abs with every symbolic link on the way replaced by what it points to (filepath.EvalSymlinks).
func (f *FS) Resolve(abs string, depth int) (string, syscall.Errno) {
	if depth > 16 {
		return "", syscall.ELOOP
	}
	parts := split(abs)
	cur := f.Root
	curPath := ""
	for i, name := range parts {
		if cur.Kind != KDir {
			return "", syscall.ENOTDIR
		}
		child, ok := cur.Children[name]
		if !ok {
			return "", syscall.ENOENT
		}
		if child.Kind == KLink {
			tgt := child.Target
			if !strings.HasPrefix(tgt, "/") {
				tgt = curPath + "/" + tgt
			}
			return f.Resolve(path.Clean(tgt+"/"+strings.Join(parts[i+1:], "/")), depth+1)
		}
		cur = child
		curPath = curPath + "/" + name
	}
	if curPath == "" {
		curPath = "/"
	}
	return curPath, 0
}

func (f *FS) parentOf(abs string) (*Node, string, syscall.Errno) {
	dir, name := path.Split(abs)
	if name == "" {
		return nil, "", syscall.EINVAL
	}
	p, e := f.lookup(path.Clean(dir), true, 0)
	if e != 0 {
		return nil, "", e
	}
	if p.Kind != KDir {
		return nil, "", syscall.ENOTDIR
	}
	return p, name, 0
}

// ---- plain (unlogged, unscheduled) helpers used by the harness and the editor actor ----

func (f *FS) MkdirAllRaw(abs string) syscall.Errno {
	cur := f.Root
	for _, name := range split(abs) {
		child, ok := cur.Children[name]
		if !ok {
			child = f.newNode(KDir, 0o755)
			cur.Children[name] = child
			cur.Mtime = now()
		}
		if child.Kind == KLink {
			n, e := f.lookup(abs, true, 0)
			if e != 0 {
				return e
			}
			child = n
		}
		if child.Kind != KDir {
			return syscall.ENOTDIR
		}
		cur = child
	}
	return 0
}

func (f *FS) PutFileRaw(abs string, data []byte) {
	f.MkdirAllRaw(path.Dir(abs))
	p, name, e := f.parentOf(abs)
	if e != 0 {
		panic("PutFileRaw: " + abs + ": " + e.Error())
	}
	n, ok := p.Children[name]
	if !ok || n.Kind != KFile {
		n = f.newNode(KFile, 0o644)
		p.Children[name] = n
		p.Mtime = now() // a new directory entry
	}
	n.Data = append([]byte(nil), data...)
	n.Mtime = now()
}

type TreeEntry struct {
	Kind   string `json:"k"`
	Data   string `json:"d,omitempty"` // file content (raw string; model and generated files are text)
	Target string `json:"t,omitempty"`
	Mtime  int64  `json:"m"`
}

// Snapshot returns every node below the root keyed by absolute path.
func (f *FS) Snapshot() map[string]TreeEntry {
	out := map[string]TreeEntry{}
	var rec func(p string, n *Node)
	rec = func(p string, n *Node) {
		switch n.Kind {
		case KFile:
			out[p] = TreeEntry{Kind: "f", Data: string(n.Data), Mtime: n.Mtime.UnixNano()}
		case KLink:
			out[p] = TreeEntry{Kind: "l", Target: n.Target, Mtime: n.Mtime.UnixNano()}
		case KDir:
			if p != "" {
				out[p] = TreeEntry{Kind: "d", Mtime: n.Mtime.UnixNano()}
			}
			names := make([]string, 0, len(n.Children))
			for k := range n.Children {
				names = append(names, k)
			}
			sort.Strings(names)
			for _, k := range names {
				rec(p+"/"+k, n.Children[k])
			}
		}
	}
	rec("", f.Root)
	return out
}

// ---- fs.FileInfo / fs.DirEntry over nodes ----

type Info struct {
	name string
	n    *Node
	size int64
	mode fs.FileMode
	mt   time.Time
}

func infoOf(name string, n *Node) *Info {
	m := n.Mode
	switch n.Kind {
	case KDir:
		m |= fs.ModeDir
	case KLink:
		m |= fs.ModeSymlink
	}
	return &Info{name: name, n: n, size: int64(len(n.Data)), mode: m, mt: n.Mtime}
}

func (i *Info) Name() string               { return i.name }
func (i *Info) Size() int64                { return i.size }
func (i *Info) Mode() fs.FileMode          { return i.mode }
func (i *Info) ModTime() time.Time         { return i.mt }
func (i *Info) IsDir() bool                { return i.mode.IsDir() }
func (i *Info) Sys() any                   { return nil }
func (i *Info) Type() fs.FileMode          { return i.mode.Type() }
func (i *Info) Info() (fs.FileInfo, error) { return i, nil }

func perr(op, p string, e syscall.Errno) error {
	return &fs.PathError{Op: op, Path: p, Err: e}
}
