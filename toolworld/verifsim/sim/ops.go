package sim

import (
	"errors"
	"io"
	"io/fs"
	"os"
	"path"
	"sort"
	"strings"
	"syscall"
)

var errnos = map[string]syscall.Errno{
	"EIO": syscall.EIO, "EACCES": syscall.EACCES, "ENOENT": syscall.ENOENT, "ENOSPC": syscall.ENOSPC,
	"EEXIST": syscall.EEXIST, "ENOTDIR": syscall.ENOTDIR, "ENAMETOOLONG": syscall.ENAMETOOLONG, "ELOOP": syscall.ELOOP, "EMFILE": syscall.EMFILE, "EINTR": syscall.EINTR,
}

func errnoName(e syscall.Errno) string {
	for k, v := range errnos {
		if v == e {
			return k
		}
	}
	return e.Error()
}

// begin is the common prologue of every simulated call: scheduling point, then fault plan.
// POSIX: an empty pathname names nothing (ENOENT) - it is not the working directory.
func emptyPath(op, p string) error {
	if p != "" {
		return nil
	}
	Yield(op + " <empty path>")
	logOp(op, "", "ENOENT", 0, false, false)
	return perr(op, p, syscall.ENOENT)
}

func begin(op, abs string) (syscall.Errno, bool) {
	Yield(op + " " + abs)
	if name, ok := checkFault(op, abs); ok {
		e := errnos[name]
		if e == 0 {
			e = syscall.EIO
		}
		Probe("fault_fired_" + name)
		return e, true
	}
	return 0, false
}

func res(e syscall.Errno) string {
	if e == 0 {
		return "ok"
	}
	return errnoName(e)
}

func Getwd() (string, error) {
	if e, f := begin("getwd", ""); f {
		logOp("getwd", "", res(e), 0, false, true)
		return "", &fs.PathError{Op: "getwd", Path: ".", Err: e}
	}
	logOp("getwd", TheFS.Cwd, "ok", 0, false, false)
	return TheFS.Cwd, nil
}

func Chdir(p string) error {
	if err := emptyPath("chdir", p); err != nil {
		return err
	}
	abs := TheFS.Abs(p)
	if e, f := begin("chdir", abs); f {
		logOp("chdir", abs, res(e), 0, false, true)
		return perr("chdir", p, e)
	}
	abs = TheFS.Abs(p) // cwd may have changed while parked: relative paths resolve at call time
	n, e := TheFS.lookup(abs, true, 0)
	if e == 0 && n.Kind != KDir {
		e = syscall.ENOTDIR
	}
	logOp("chdir", abs, res(e), 0, false, false)
	if e != 0 {
		return perr("chdir", p, e)
	}
	TheFS.Cwd = abs
	return nil
}

func stat(op, p string, follow bool) (fs.FileInfo, error) {
	if err := emptyPath(op, p); err != nil {
		return nil, err
	}
	abs := TheFS.Abs(p)
	if e, f := begin(op, abs); f {
		logOp(op, abs, res(e), 0, false, true)
		return nil, perr(op, p, e)
	}
	abs = TheFS.Abs(p)
	n, e := TheFS.lookup(abs, follow, 0)
	logOp(op, abs, res(e), 0, false, false)
	if e != 0 {
		return nil, perr(op, p, e)
	}
	return infoOf(path.Base(abs), n), nil
}

func Stat(p string) (fs.FileInfo, error)  { return stat("stat", p, true) }
func Lstat(p string) (fs.FileInfo, error) { return stat("lstat", p, false) }

// Handle is an open file: it refers to the inode, not the path, as a real descriptor does.
type Handle struct {
	Path   string
	n      *Node
	off    int
	write  bool
	append bool
	closed bool
}

const (
	O_RDONLY = syscall.O_RDONLY
	O_WRONLY = syscall.O_WRONLY
	O_RDWR   = syscall.O_RDWR
	O_APPEND = syscall.O_APPEND
	O_CREATE = syscall.O_CREAT
	O_EXCL   = syscall.O_EXCL
	O_TRUNC  = syscall.O_TRUNC
)

func OpenFile(p string, flag int, perm fs.FileMode) (*Handle, error) {
	if err := emptyPath("open", p); err != nil {
		return nil, err
	}
	abs := TheFS.Abs(p)
	if e, f := begin("open", abs); f {
		logOp("open", abs, res(e), 0, false, true)
		return nil, perr("open", p, e)
	}
	abs = TheFS.Abs(p)
	return openNow(p, abs, flag, perm)
}

func openNow(p, abs string, flag int, perm fs.FileMode) (*Handle, error) {
	wr := flag&(O_WRONLY|O_RDWR) != 0
	n, e := TheFS.lookup(abs, true, 0)
	mut := false
	if e == syscall.ENOENT && flag&O_CREATE != 0 {
		par, name, pe := TheFS.parentOf(abs)
		if pe != 0 {
			logOp("open", abs, res(pe), 0, false, false)
			return nil, perr("open", p, pe)
		}
		n = TheFS.newNode(KFile, perm)
		par.Children[name] = n
		par.Mtime = now()
		mut = true
		e = 0
		notify(abs, EvCreate)
	} else if e == 0 && flag&O_CREATE != 0 && flag&O_EXCL != 0 {
		e = syscall.EEXIST
	}
	if e == 0 && n.Kind == KDir && wr {
		e = syscall.EISDIR
	}
	if e != 0 {
		logOp("open", abs, res(e), 0, false, false)
		return nil, perr("open", p, e)
	}
	if flag&O_TRUNC != 0 && wr && n.Kind == KFile {
		if len(n.Data) > 0 {
			notify(abs, EvWrite)
		}
		n.Data = nil
		n.Mtime = now()
		mut = true
	}
	logOp("open", abs, "ok", 0, mut, false)
	return &Handle{Path: abs, n: n, write: wr, append: flag&O_APPEND != 0}, nil
}

func (h *Handle) Read(b []byte) (int, error) {
	if h.closed {
		return 0, fs.ErrClosed
	}
	if e, f := begin("read", h.Path); f {
		logOp("read", h.Path, res(e), 0, false, true)
		return 0, perr("read", h.Path, e)
	}
	if h.n.Kind == KDir {
		return 0, perr("read", h.Path, syscall.EISDIR)
	}
	if h.off >= len(h.n.Data) {
		logOp("read", h.Path, "eof", 0, false, false)
		return 0, io.EOF
	}
	n := copy(b, h.n.Data[h.off:])
	h.off += n
	logOp("read", h.Path, "ok", n, false, false)
	return n, nil
}

func (h *Handle) Write(b []byte) (int, error) {
	if h.closed {
		return 0, fs.ErrClosed
	}
	if !h.write {
		return 0, perr("write", h.Path, syscall.EBADF)
	}
	if e, f := begin("write", h.Path); f {
		logOp("write", h.Path, res(e), 0, false, true)
		return 0, perr("write", h.Path, e)
	}
	if h.append {
		h.off = len(h.n.Data)
	}
	for len(h.n.Data) < h.off {
		h.n.Data = append(h.n.Data, 0)
	}
	h.n.Data = append(h.n.Data[:h.off], append(append([]byte(nil), b...), tail(h.n.Data, h.off+len(b))...)...)
	h.off += len(b)
	h.n.Mtime = now()
	logOp("write", h.Path, "ok", len(b), true, false)
	notify(h.Path, EvWrite)
	return len(b), nil
}

func tail(d []byte, from int) []byte {
	if from >= len(d) {
		return nil
	}
	return append([]byte(nil), d[from:]...)
}

// pathOfNode: the present name of a directory node (by search from the root), "" if it is no longer in the tree.
func pathOfNode(cur *Node, at string, want *Node) string {
	if cur == want {
		if at == "" {
			return "/"
		}
		return at
	}
	if cur.Kind != KDir {
		return ""
	}
	names := make([]string, 0, len(cur.Children))
	for name := range cur.Children {
		names = append(names, name)
	}
	sort.Strings(names)
	for _, name := range names {
		if p := pathOfNode(cur.Children[name], at+"/"+name, want); p != "" {
			return p
		}
	}
	return ""
}

// Chdir on an open directory (fchdir): the directory by identity, whatever it is called by now.
func (h *Handle) Chdir() error {
	Yield("fchdir " + h.Path)
	p := ""
	if h.n != nil && h.n.Kind == KDir {
		p = pathOfNode(TheFS.Root, "", h.n)
	}
	if p == "" {
		logOp("chdir", h.Path, "ENOENT", 0, false, false)
		return perr("chdir", h.Path, syscall.ENOENT)
	}
	TheFS.Cwd = p
	logOp("chdir", p, "ok", 0, false, false)
	return nil
}

func (h *Handle) Close() error {
	if h.closed {
		return fs.ErrClosed
	}
	h.closed = true
	return nil
}

func (h *Handle) Stat() (fs.FileInfo, error) {
	return infoOf(path.Base(h.Path), h.n), nil
}

func (h *Handle) Seek(offset int64, whence int) (int64, error) {
	switch whence {
	case io.SeekStart:
		h.off = int(offset)
	case io.SeekCurrent:
		h.off += int(offset)
	case io.SeekEnd:
		h.off = len(h.n.Data) + int(offset)
	}
	if h.off < 0 {
		h.off = 0
		return 0, errors.New("negative position")
	}
	return int64(h.off), nil
}

func (h *Handle) ReadDirEntries() ([]fs.DirEntry, error) {
	if h.n.Kind != KDir {
		return nil, perr("readdir", h.Path, syscall.ENOTDIR)
	}
	return listDir(h.n), nil
}

func (h *Handle) Truncate(size int64) error {
	if int(size) < len(h.n.Data) {
		h.n.Data = h.n.Data[:size]
	}
	for len(h.n.Data) < int(size) {
		h.n.Data = append(h.n.Data, 0)
	}
	h.n.Mtime = now()
	logOp("truncate", h.Path, "ok", int(size), true, false)
	notify(h.Path, EvWrite)
	return nil
}

// ReadFile is open + read-to-end as two scheduling points (a concurrent in-place writer can
// make the reader see the truncated or partially written file).
func ReadFile(p string) ([]byte, error) {
	h, err := OpenFile(p, O_RDONLY, 0)
	if err != nil {
		return nil, err
	}
	if e, f := begin("read", h.Path); f {
		logOp("read", h.Path, res(e), 0, false, true)
		return nil, perr("read", p, e)
	}
	if h.n.Kind == KDir {
		logOp("read", h.Path, "EISDIR", 0, false, false)
		return nil, perr("read", p, syscall.EISDIR)
	}
	data := append([]byte(nil), h.n.Data...)
	logOp("read", h.Path, "ok", len(data), false, false)
	return data, nil
}

// WriteFile is open(O_TRUNC) + write as two scheduling points, like the real one.
func WriteFile(p string, data []byte, perm fs.FileMode) error {
	h, err := OpenFile(p, O_WRONLY|O_CREATE|O_TRUNC, perm)
	if err != nil {
		return err
	}
	_, err = h.Write(data)
	return err
}

func Mkdir(p string, perm fs.FileMode) error {
	if err := emptyPath("mkdir", p); err != nil {
		return err
	}
	abs := TheFS.Abs(p)
	if e, f := begin("mkdir", abs); f {
		logOp("mkdir", abs, res(e), 0, false, true)
		return perr("mkdir", p, e)
	}
	abs = TheFS.Abs(p)
	par, name, e := TheFS.parentOf(abs)
	if e == 0 {
		if _, ok := par.Children[name]; ok {
			e = syscall.EEXIST
		}
	}
	if e != 0 {
		logOp("mkdir", abs, res(e), 0, false, false)
		return perr("mkdir", p, e)
	}
	par.Children[name] = TheFS.newNode(KDir, perm)
	par.Mtime = now()
	logOp("mkdir", abs, "ok", 0, true, false)
	notify(abs, EvCreate)
	return nil
}

func MkdirAll(p string, perm fs.FileMode) error {
	if err := emptyPath("mkdir", p); err != nil {
		return err
	}
	abs := TheFS.Abs(p)
	if e, f := begin("mkdirall", abs); f {
		logOp("mkdirall", abs, res(e), 0, false, true)
		return perr("mkdir", p, e)
	}
	abs = TheFS.Abs(p)
	// find which components are missing, to log a mutation only when one is created
	created := false
	cur := ""
	for _, name := range split(abs) {
		cur = cur + "/" + name
		n, e := TheFS.lookup(cur, true, 0)
		if e == syscall.ENOENT {
			par, nm, pe := TheFS.parentOf(cur)
			if pe != 0 {
				logOp("mkdirall", abs, res(pe), 0, created, false)
				return perr("mkdir", p, pe)
			}
			par.Children[nm] = TheFS.newNode(KDir, perm)
			par.Mtime = now()
			created = true
			notify(cur, EvCreate)
			continue
		}
		if e != 0 {
			logOp("mkdirall", abs, res(e), 0, created, false)
			return perr("mkdir", p, e)
		}
		if n.Kind != KDir {
			logOp("mkdirall", abs, "ENOTDIR", 0, created, false)
			return perr("mkdir", p, syscall.ENOTDIR)
		}
	}
	logOp("mkdirall", abs, "ok", 0, created, false)
	return nil
}

func listDir(n *Node) []fs.DirEntry {
	names := make([]string, 0, len(n.Children))
	for k := range n.Children {
		names = append(names, k)
	}
	sort.Strings(names)
	out := make([]fs.DirEntry, 0, len(names))
	for _, k := range names {
		out = append(out, infoOf(k, n.Children[k]))
	}
	return out
}

func ReadDir(p string) ([]fs.DirEntry, error) {
	if err := emptyPath("open", p); err != nil {
		return nil, err
	}
	abs := TheFS.Abs(p)
	if e, f := begin("readdir", abs); f {
		logOp("readdir", abs, res(e), 0, false, true)
		return nil, perr("open", p, e)
	}
	abs = TheFS.Abs(p)
	n, e := TheFS.lookup(abs, true, 0)
	if e == 0 && n.Kind != KDir {
		e = syscall.ENOTDIR
	}
	logOp("readdir", abs, res(e), 0, false, false)
	if e != 0 {
		return nil, perr("open", p, e)
	}
	return listDir(n), nil
}

func Remove(p string) error {
	if err := emptyPath("remove", p); err != nil {
		return err
	}
	abs := TheFS.Abs(p)
	if e, f := begin("remove", abs); f {
		logOp("remove", abs, res(e), 0, false, true)
		return perr("remove", p, e)
	}
	abs = TheFS.Abs(p)
	par, name, e := TheFS.parentOf(abs)
	if e == 0 {
		n, ok := par.Children[name]
		if !ok {
			e = syscall.ENOENT
		} else if n.Kind == KDir && len(n.Children) > 0 {
			e = syscall.ENOTEMPTY
		}
	}
	if e != 0 {
		logOp("remove", abs, res(e), 0, false, false)
		return perr("remove", p, e)
	}
	gone := par.Children[name]
	delete(par.Children, name)
	par.Mtime = now()
	logOp("remove", abs, "ok", 0, true, false)
	notify(abs, EvRemove)
	detached(gone, par, EvRemove)
	return nil
}

func RemoveAll(p string) error {
	abs := TheFS.Abs(p)
	if e, f := begin("removeall", abs); f {
		logOp("removeall", abs, res(e), 0, false, true)
		return perr("removeall", p, e)
	}
	abs = TheFS.Abs(p)
	par, name, e := TheFS.parentOf(abs)
	if e != 0 {
		logOp("removeall", abs, "ok", 0, false, false)
		return nil
	}
	if gone, ok := par.Children[name]; ok {
		delete(par.Children, name)
		par.Mtime = now()
		logOp("removeall", abs, "ok", 0, true, false)
		notify(abs, EvRemove)
		detached(gone, par, EvRemove)
		return nil
	}
	logOp("removeall", abs, "ok", 0, false, false)
	return nil
}

func Rename(oldp, newp string) error {
	oa, na := TheFS.Abs(oldp), TheFS.Abs(newp)
	if e, f := begin("rename", oa); f {
		logOp("rename", oa+" -> "+na, res(e), 0, false, true)
		return &fs.PathError{Op: "rename", Path: oldp, Err: e}
	}
	oa, na = TheFS.Abs(oldp), TheFS.Abs(newp)
	if e := RenameRaw(oa, na); e != 0 {
		logOp("rename", oa+" -> "+na, res(e), 0, false, false)
		return &fs.PathError{Op: "rename", Path: oldp, Err: e}
	}
	logOp("rename", oa+" -> "+na, "ok", 0, true, false)
	return nil
}

func RenameRaw(oa, na string) syscall.Errno {
	op, on, e := TheFS.parentOf(oa)
	if e != 0 {
		return e
	}
	n, ok := op.Children[on]
	if !ok {
		return syscall.ENOENT
	}
	np, nn, e := TheFS.parentOf(na)
	if e != 0 {
		return e
	}
	if ex, ok := np.Children[nn]; ok && ex.Kind == KDir && len(ex.Children) > 0 {
		return syscall.ENOTEMPTY
	}
	replaced := np.Children[nn]
	delete(op.Children, on)
	np.Children[nn] = n
	// a process is in its working directory by identity, not by name: if that directory or one above it was moved,
	// getcwd reports the new name from now on
	if n.Kind == KDir && (TheFS.Cwd == oa || strings.HasPrefix(TheFS.Cwd, oa+"/")) {
		TheFS.Cwd = na + TheFS.Cwd[len(oa):]
		Probe("working_directory_moved")
	}
	op.Mtime = now()
	np.Mtime = now()
	notify(oa, EvRename)
	notify(na, EvCreate)
	detached(n, op, EvRename)
	if replaced != nil && replaced != n {
		detached(replaced, np, EvRemove)
	}
	return 0
}

func Symlink(target, linkp string) error {
	abs := TheFS.Abs(linkp)
	if e, f := begin("symlink", abs); f {
		logOp("symlink", abs, res(e), 0, false, true)
		return &os.LinkError{Op: "symlink", Old: target, New: linkp, Err: e}
	}
	abs = TheFS.Abs(linkp)
	par, name, e := TheFS.parentOf(abs)
	if e == 0 {
		if _, ok := par.Children[name]; ok {
			e = syscall.EEXIST
		}
	}
	if e != 0 {
		logOp("symlink", abs, res(e), 0, false, false)
		return &os.LinkError{Op: "symlink", Old: target, New: linkp, Err: e}
	}
	n := TheFS.newNode(KLink, 0o777)
	n.Target = target
	par.Children[name] = n
	par.Mtime = now()
	logOp("symlink", abs, "ok", 0, true, false)
	notify(abs, EvCreate)
	return nil
}

func Readlink(p string) (string, error) {
	abs := TheFS.Abs(p)
	if e, f := begin("readlink", abs); f {
		logOp("readlink", abs, res(e), 0, false, true)
		return "", perr("readlink", p, e)
	}
	abs = TheFS.Abs(p)
	n, e := TheFS.lookup(abs, false, 0)
	if e == 0 && n.Kind != KLink {
		e = syscall.EINVAL
	}
	logOp("readlink", abs, res(e), 0, false, false)
	if e != 0 {
		return "", perr("readlink", p, e)
	}
	return n.Target, nil
}

func Chmod(p string, mode fs.FileMode) error {
	if err := emptyPath("chmod", p); err != nil {
		return err
	}
	abs := TheFS.Abs(p)
	if e, f := begin("chmod", abs); f {
		logOp("chmod", abs, res(e), 0, false, true)
		return perr("chmod", p, e)
	}
	n, e := TheFS.lookup(abs, true, 0)
	if e != 0 {
		logOp("chmod", abs, res(e), 0, false, false)
		return perr("chmod", p, e)
	}
	n.Mode = mode
	logOp("chmod", abs, "ok", 0, true, false)
	notify(abs, EvChmod)
	return nil
}

// Walk mirrors filepath.Walk: lstat of the root, then per directory one readdir and one lstat
// per entry, each a scheduling point; lexical order.
func Walk(root string, fn func(p string, info fs.FileInfo, err error) error) error {
	info, err := Lstat(root)
	if err != nil {
		err = fn(root, nil, err)
	} else {
		err = walk(root, info, fn)
	}
	if err == fs.SkipDir || err == fs.SkipAll {
		return nil
	}
	return err
}

func walk(p string, info fs.FileInfo, fn func(p string, info fs.FileInfo, err error) error) error {
	if !info.IsDir() {
		return fn(p, info, nil)
	}
	entries, err := ReadDir(p)
	err1 := fn(p, info, err)
	if err != nil || err1 != nil {
		return err1
	}
	for _, ent := range entries {
		name := path.Join(p, ent.Name()) // as filepath.Walk does: Walk(".") reports "sub", not "./sub"
		fi, err := Lstat(name)
		if err != nil {
			if err := fn(name, fi, err); err != nil && err != fs.SkipDir {
				return err
			}
		} else {
			err = walk(name, fi, fn)
			if err != nil {
				if !fi.IsDir() || err != fs.SkipDir {
					return err
				}
			}
		}
	}
	return nil
}

// ---------------------------------------------------------------------------------------
// fsnotify model: non-recursive directory watches, events queued by mutations and delivered
// only by the driver.
// ---------------------------------------------------------------------------------------

const (
	EvCreate = 1 << iota
	EvWrite
	EvRemove
	EvRename
	EvChmod
)

// A watch follows inotify/fsnotify semantics: it is attached to the directory itself (the inode), is
// known under the cleaned name it was first added with (a later Add of the same directory under another
// name changes nothing and is not listed), and disappears by itself when the directory is deleted or renamed.
type Watch struct {
	Node *Node
	Name string
}

type WatcherState struct {
	ID      int
	Watches []Watch
	Closed  bool
	Send    func(name string, op int) bool // non-blocking send on the watcher's Events channel
	SendErr func(err error) bool
	CloseCh func()
}

// Names: what WatchList reports.
func (w *WatcherState) Names() []string {
	out := make([]string, 0, len(w.Watches))
	for _, x := range w.Watches {
		out = append(out, x.Name)
	}
	return out
}

type PendingEvent struct {
	Seq  int
	W    *WatcherState
	Name string
	Op   int
}

func queueEvent(w *WatcherState, name string, op int) {
	evSeq++
	PendingEvs = append(PendingEvs, &PendingEvent{Seq: evSeq, W: w, Name: name, Op: op})
	Probe("fsevent_queued")
}

// notify: the entry abs of its parent directory was created / written / removed / renamed.
func notify(abs string, op int) {
	par, name, e := TheFS.parentOf(abs)
	if e != 0 {
		return
	}
	for _, w := range Watchers {
		if w.Closed {
			continue
		}
		for _, x := range w.Watches {
			if x.Node == par {
				queueEvent(w, path.Join(x.Name, name), op)
				break
			}
		}
	}
}

// detached: the node n (and everything below it) was unlinked (op EvRemove) or n was renamed (op
// EvRename; watches below a renamed directory stay, as inotify watches do).  Watches on the affected
// directories are dropped; each sends one event under its own name, except that a deleted directory
// whose parent is watched too is reported by the parent only.
func detached(n *Node, parent *Node, op int) {
	if n == nil || n.Kind != KDir {
		return
	}
	for _, w := range Watchers {
		if w.Closed {
			continue
		}
		for i := 0; i < len(w.Watches); i++ {
			x := w.Watches[i]
			if x.Node != n {
				continue
			}
			w.Watches = append(w.Watches[:i], w.Watches[i+1:]...)
			i--
			Probe("watch_dropped_dir_gone")
			parentWatched := false
			for _, y := range w.Watches {
				if y.Node == parent {
					parentWatched = true
				}
			}
			if !(op == EvRemove && parentWatched) {
				queueEvent(w, x.Name, op)
			}
		}
	}
	if op == EvRemove {
		for _, c := range n.Children {
			detached(c, n, op)
		}
	}
}

func NewWatcherState() *WatcherState {
	Yield("watcher.new")
	w := &WatcherState{ID: len(Watchers) + 1}
	Watchers = append(Watchers, w)
	logOp("watcher.new", "", "ok", 0, false, false)
	return w
}

func (w *WatcherState) Add(p string) error {
	if err := emptyPath("watch.add", p); err != nil {
		return err
	}
	abs := TheFS.Abs(p)
	if e, f := begin("watch.add", abs); f {
		logOp("watch.add", abs, res(e), 0, false, true)
		return perr("watch.add", p, e)
	}
	abs = TheFS.Abs(p)
	n, e := TheFS.lookup(abs, true, 0)
	if e != 0 {
		logOp("watch.add", abs, res(e), 0, false, false)
		return perr("watch.add", p, e)
	}
	for _, x := range w.Watches {
		if x.Node == n {
			logOp("watch.add", abs, "dup", 0, false, false)
			return nil
		}
	}
	w.Watches = append(w.Watches, Watch{Node: n, Name: path.Clean(p)})
	logOp("watch.add", abs, "ok", 0, false, false)
	return nil
}

func (w *WatcherState) Remove(p string) error {
	abs := TheFS.Abs(p)
	Yield("watch.remove " + abs)
	name := path.Clean(p)
	for i, x := range w.Watches {
		if x.Name == name {
			w.Watches = append(w.Watches[:i], w.Watches[i+1:]...)
			logOp("watch.remove", abs, "ok", 0, false, false)
			return nil
		}
	}
	logOp("watch.remove", abs, "ENOENT", 0, false, false)
	return errors.New("fsnotify: can't remove non-existent watch: " + p)
}

func (w *WatcherState) List() []string {
	Yield("watch.list")
	logOp("watch.list", "", "ok", len(w.Watches), false, false)
	return w.Names()
}

func (w *WatcherState) Close() {
	Yield("watch.close")
	if !w.Closed {
		w.Closed = true
		if w.CloseCh != nil {
			w.CloseCh()
		}
	}
	logOp("watch.close", "", "ok", 0, false, false)
}
