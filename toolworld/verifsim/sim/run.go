package sim

import (
	"encoding/json"
	"fmt"
	"os"
	"path"
	"runtime/debug"
	"sort"
	"strings"
	"testing"
	"testing/synctest"
	"time"
)

type Edit struct {
	Kind  string `json:"kind"` // write | atomic | backup | remove | rename | mkdir | pause
	Path  string `json:"path"`
	Data  string `json:"data,omitempty"`
	To    string `json:"to,omitempty"`
	Steps int    `json:"steps,omitempty"` // write: visible steps 1..3
	// WhenRead places the edit inside an operation of the tool: it is held back until the tool has read the named file
	// to its end (after the previous edit), and is then made at once, before anything else runs. If that never happens
	// the edit is made once the system has been quiet for half the settle time.
	WhenRead string `json:"when_read,omitempty"`
}

type Spec struct {
	Mode     string            `json:"mode"` // oneshot | watch
	Files    map[string]string `json:"files"`
	Links    map[string]string `json:"links,omitempty"`
	Dirs     []string          `json:"dirs,omitempty"`
	Cwd      string            `json:"cwd"`
	Args     []string          `json:"args"`
	Seed     uint64            `json:"seed"`
	GPolicy  string            `json:"gpolicy"` // rtc | sticky | pct | starve
	PSwitch  float64           `json:"p_switch"`
	PClk     float64           `json:"p_clk"`
	PEd      float64           `json:"p_ed"`
	PEv      float64           `json:"p_ev"`
	PEvDup   float64           `json:"p_evdup"`
	PEvDrop  float64           `json:"p_evdrop"`
	Preempt  int               `json:"preempt"`
	ErrEvs   int               `json:"err_events"`
	MaxSteps int               `json:"max_steps"`
	SettleMs int               `json:"settle_ms"`
	Edits    []Edit            `json:"edits,omitempty"`
	Faults   []*Fault          `json:"faults,omitempty"`
	CrashAt  int               `json:"crash_at,omitempty"` // stop at the n-th mutating op (process crash); 0 = never
	CrashTear string           `json:"crash_tear,omitempty"` // "", "short", "zerotail": state of the write in flight at the crash
	Mtimes   map[string]int64  `json:"mtimes,omitempty"`   // modification times of initial files, in seconds relative to the start of the run (negative: older)
	Trace    []string          `json:"trace,omitempty"`    // explicit schedule to follow (replay)
	FullOps  bool              `json:"full_ops,omitempty"`
	NoTree   bool              `json:"no_tree,omitempty"`
}

type Result struct {
	Status       string               `json:"status"`
	ExitCode     int                  `json:"exit_code"`
	MainReturned bool                 `json:"main_returned"`
	Stderr       string               `json:"stderr"`
	Ops          []Op                 `json:"ops"`
	NOps         int                  `json:"n_ops"`
	NMut         int                  `json:"n_mut"`
	Tree         map[string]TreeEntry `json:"tree,omitempty"`
	Trace        []string             `json:"trace"`
	Probes       map[string]int       `json:"probes"`
	Steps        int                  `json:"steps"`
	SimNs        int64                `json:"sim_ns"`
	Alive        bool                 `json:"alive"`
	Quiesced     bool                 `json:"quiesced"`
	Panic        string               `json:"panic,omitempty"`
	Diverged     int                  `json:"trace_diverged"`
	Faults       []*Fault             `json:"faults,omitempty"`
	EditsApplied int                  `json:"edits_applied"`
	WatchDirs    []string             `json:"watch_dirs,omitempty"`
}

type rng struct{ s uint64 }

func (r *rng) next() uint64 {
	r.s += 0x9e3779b97f4a7c15
	z := r.s
	z = (z ^ (z >> 30)) * 0xbf58476d1ce4e5b9
	z = (z ^ (z >> 27)) * 0x94d049bb133111eb
	return z ^ (z >> 31)
}
func (r *rng) float() float64 { return float64(r.next()>>11) / (1 << 53) }
func (r *rng) intn(n int) int { return int(r.next() % uint64(n)) }

type editStep struct {
	do    func()
	desc  string
	last  bool // last micro-step of an edit
	pause bool // the editor waits: only eligible while nothing else can run, and then lets simulated time pass
	whenRead string // first micro-step of an edit with WhenRead
}

// editorPutFile writes a file the way a person's tools do: directories on the way that do not exist yet are made one by
// one (each creation is an event in its parent directory, as with mkdir -p), and a file that did not exist is created
// (an event of its own) before it is written.
func editorPutFile(fs *FS, abs string, data []byte) {
	var missing []string
	for d := path.Dir(abs); d != "/" && d != "."; d = path.Dir(d) {
		if _, er := fs.lookup(d, true, 0); er == 0 {
			break
		}
		missing = append(missing, d)
	}
	for i := len(missing) - 1; i >= 0; i-- {
		fs.MkdirAllRaw(missing[i])
		notify(missing[i], EvCreate)
	}
	_, er := fs.lookup(abs, true, 0)
	fs.PutFileRaw(abs, data)
	if er != 0 {
		notify(abs, EvCreate)
	}
}

func expandEdits(edits []Edit) []editStep {
	var out []editStep
	fs := TheFS
	for _, e := range edits {
		e := e
		firstOfEdit := len(out)
		switch e.Kind {
		case "write":
			steps := e.Steps
			if steps <= 0 {
				steps = 1
			}
			data := []byte(e.Data)
			switch steps {
			case 1:
				out = append(out, editStep{func() { editorPutFile(fs, e.Path, data); notify(e.Path, EvWrite) }, "write1 " + e.Path, true, false, ""})
			case 2:
				out = append(out, editStep{func() { editorPutFile(fs, e.Path, nil); notify(e.Path, EvWrite) }, "trunc " + e.Path, false, false, ""})
				out = append(out, editStep{func() { editorPutFile(fs, e.Path, data); notify(e.Path, EvWrite) }, "write " + e.Path, true, false, ""})
			default:
				half := len(data) / 2
				out = append(out, editStep{func() { editorPutFile(fs, e.Path, nil); notify(e.Path, EvWrite) }, "trunc " + e.Path, false, false, ""})
				out = append(out, editStep{func() { editorPutFile(fs, e.Path, data[:half]); notify(e.Path, EvWrite) }, "write-half " + e.Path, false, false, ""})
				out = append(out, editStep{func() { editorPutFile(fs, e.Path, data); notify(e.Path, EvWrite) }, "write-rest " + e.Path, true, false, ""})
			}
		case "atomic":
			tmp := path.Dir(e.Path) + "/." + path.Base(e.Path) + ".swp~"
			out = append(out, editStep{func() { editorPutFile(fs, tmp, []byte(e.Data)); notify(tmp, EvCreate); notify(tmp, EvWrite) }, "tmpwrite " + tmp, false, false, ""})
			out = append(out, editStep{func() { RenameRaw(tmp, e.Path) }, "rename->" + e.Path, true, false, ""})
		case "backup":
			// the way vim saves by default: move the file aside, write a new one under the old name, delete the backup
			// (for a moment the file does not exist at all)
			bak := e.Path + "~"
			out = append(out, editStep{func() { RenameRaw(e.Path, bak) }, "rename-aside " + e.Path, false, false, ""})
			out = append(out, editStep{func() { editorPutFile(fs, e.Path, []byte(e.Data)); notify(e.Path, EvCreate); notify(e.Path, EvWrite) }, "write-new " + e.Path, false, false, ""})
			out = append(out, editStep{func() {
				if p, n, er := fs.parentOf(bak); er == 0 {
					if _, ok := p.Children[n]; ok {
						delete(p.Children, n)
						p.Mtime = now()
						notify(bak, EvRemove)
					}
				}
			}, "remove-backup " + bak, true, false, ""})
		case "remove":
			out = append(out, editStep{func() {
				if p, n, er := fs.parentOf(e.Path); er == 0 {
					if gone, ok := p.Children[n]; ok {
						delete(p.Children, n)
						p.Mtime = now()
						notify(e.Path, EvRemove)
						detached(gone, p, EvRemove)
					}
				}
			}, "remove " + e.Path, true, false, ""})
		case "rename":
			out = append(out, editStep{func() { RenameRaw(e.Path, e.To) }, "rename " + e.Path + "->" + e.To, true, false, ""})
		case "mkdir":
			out = append(out, editStep{func() { fs.MkdirAllRaw(e.Path); notify(e.Path, EvCreate) }, "mkdir " + e.Path, true, false, ""})
		case "pause":
			// the person at the editor waits until the tool has gone quiet: three waits of 20 ms, each possible only
			// when no goroutine is runnable and no event is deliverable (so a regeneration started by a debounce
			// timer that fires during one wait has to finish before the next)
			for i := 0; i < 3; i++ {
				out = append(out, editStep{func() { time.Sleep(20 * time.Millisecond) }, "pause", i == 2, true, ""})
			}
		default:
			panic("unknown edit kind " + e.Kind)
		}
		if e.WhenRead != "" && firstOfEdit < len(out) {
			out[firstOfEdit].whenRead = e.WhenRead
		}
	}
	return out
}

// Run executes one simulated process.  It must be called from inside a synctest bubble.
// tearLastWrite models what a crash leaves of the write that was in flight: "short" keeps only
// the first half of the bytes of that write; "zerotail" keeps the file length (size metadata
// reached the disk) but the second half of the written range reads back as zeroes (its data
// blocks did not).  Anything else: the write is complete.
func tearLastWrite(how string) {
	if how != "short" && how != "zerotail" {
		return
	}
	for i := len(OpLog) - 1; i >= 0; i-- {
		o := OpLog[i]
		if !o.Mut {
			continue
		}
		if o.Op != "write" || o.N < 2 {
			return
		}
		n, e := TheFS.lookup(o.Path, true, 0)
		if e != 0 || n.Kind != KFile || len(n.Data) < o.N {
			return
		}
		from := len(n.Data) - o.N + o.N/2
		if how == "short" {
			n.Data = n.Data[:from]
		} else {
			for j := from; j < len(n.Data); j++ {
				n.Data[j] = 0
			}
		}
		Probe("crash_tore_write_" + how)
		return
	}
}

func Run(spec *Spec, mainFn func()) *Result {
	res := &Result{Probes: Probes}
	r := &rng{s: spec.Seed*0x9E3779B97F4A7C15 + 1}
	SetClock(time.Now)
	// operations issued by package initialisers (creation of ~/.yardl/cache) precede the run
	OpLog = nil
	opSeq = 0

	for _, d := range spec.Dirs {
		TheFS.MkdirAllRaw(d)
	}
	paths := make([]string, 0, len(spec.Files))
	for p := range spec.Files {
		paths = append(paths, p)
	}
	sort.Strings(paths)
	for _, p := range paths {
		TheFS.PutFileRaw(p, []byte(spec.Files[p]))
	}
	for p, t := range spec.Links {
		TheFS.MkdirAllRaw(path.Dir(p))
		par, name, _ := TheFS.parentOf(p)
		n := TheFS.newNode(KLink, 0o777)
		n.Target = t
		par.Children[name] = n
	}
	TheFS.MkdirAllRaw(spec.Cwd)
	TheFS.Cwd = spec.Cwd
	for p, off := range spec.Mtimes {
		if n, er := TheFS.lookup(p, false, 0); er == 0 {
			n.Mtime = now().Add(time.Duration(off) * time.Second)
		}
	}
	Faults = spec.Faults
	steps := expandEdits(spec.Edits)
	nextEdit := 0

	if spec.MaxSteps == 0 {
		spec.MaxSteps = 20000
	}
	if spec.SettleMs == 0 {
		spec.SettleMs = 60000
	}

	active = true
	mainDone := false
	var mainPanic string
	go func() {
		g := register("main")
		defer unregister()
		defer func() {
			if p := recover(); p != nil {
				mainPanic = fmt.Sprintf("%v\n%s", p, debug.Stack())
			}
			mainDone = true
		}()
		park(g, "born")
		mainFn()
	}()

	type actorPrio struct {
		name string
		prio float64
	}
	prio := map[string]float64{}
	changePoints := map[int]bool{}
	for i := 0; i < spec.Preempt; i++ {
		changePoints[r.intn(3000)] = true
	}
	cur := ""
	evBlockedAt := -1
	traceIdx := 0
	lastProgress := 0
	clkSet := []time.Duration{500 * time.Microsecond, time.Millisecond, 2 * time.Millisecond, 4 * time.Millisecond, 5 * time.Millisecond, 6 * time.Millisecond, 10 * time.Millisecond, 50 * time.Millisecond}
	mutCount := func() int {
		c := 0
		for i := range OpLog {
			if OpLog[i].Mut {
				c++
			}
		}
		return c
	}

	snapshotEnabled := func() (gnames []string, gmap map[string]*G) {
		mu.Lock()
		defer mu.Unlock()
		gmap = map[string]*G{}
		for _, g := range parked {
			if g.BlockedOn != nil && g.BlockedOn.isHeld() {
				continue
			}
			gnames = append(gnames, g.Name)
			gmap[g.Name] = g
		}
		sort.Strings(gnames)
		return
	}
	release := func(g *G) {
		mu.Lock()
		for i, p := range parked {
			if p == g {
				parked = append(parked[:i], parked[i+1:]...)
				break
			}
		}
		mu.Unlock()
		g.resume <- struct{}{}
	}
	deliver := func() string {
		ev := PendingEvs[0]
		if ev.W.Closed {
			PendingEvs = PendingEvs[1:]
			return "ev-closed"
		}
		// coalesce: drop the head only if a later event for the same watcher exists
		if spec.PEvDrop > 0 && r.float() < spec.PEvDrop {
			for _, o := range PendingEvs[1:] {
				if o.W == ev.W {
					PendingEvs = PendingEvs[1:]
					Probe("event_coalesced")
					return "ev-coalesced"
				}
			}
		}
		if ev.W.Send(ev.Name, ev.Op) {
			PendingEvs = PendingEvs[1:]
			Probe("event_delivered")
			if spec.PEvDup > 0 && r.float() < spec.PEvDup {
				PendingEvs = append([]*PendingEvent{ev}, PendingEvs...)
				Probe("event_duplicated")
			}
			return "ev-sent"
		}
		Probe("event_receiver_busy")
		return "ev-busy"
	}

	finish := func(status string) *Result {
		res.Status = status
		res.ExitCode = ExitCode
		res.MainReturned = mainDone
		res.Panic = mainPanic
		res.Stderr = StderrBuf.String()
		res.NOps = len(OpLog)
		res.NMut = mutCount()
		if spec.FullOps {
			res.Ops = OpLog
		} else {
			for i := range OpLog {
				if OpLog[i].Mut || OpLog[i].Fault || strings.HasPrefix(OpLog[i].Op, "watch") || OpLog[i].Op == "exit" || OpLog[i].Op == "chdir" || OpLog[i].Op == "edit" || OpLog[i].Op == "born" || OpLog[i].Op == "getwd" {
					res.Ops = append(res.Ops, OpLog[i])
				}
			}
		}
		if !spec.NoTree && res.Tree == nil {
			res.Tree = TheFS.Snapshot()
		}
		res.SimNs = time.Now().UnixNano()
		res.Faults = Faults
		res.EditsApplied = EditsApplied
		for _, w := range Watchers {
			res.WatchDirs = append(res.WatchDirs, w.Names()...)
		}
		return res
	}

	settleLeft := time.Duration(spec.SettleMs) * time.Millisecond
	settleChunk := 20 * time.Millisecond
	editArmedAt := 0
	probed := false
	errEvsLeft := spec.ErrEvs

	for step := 0; ; step++ {
		synctest.Wait()
		res.Steps = step
		if Exited {
			return finish("exited")
		}
		if spec.CrashAt > 0 && mutCount() >= spec.CrashAt {
			tearLastWrite(spec.CrashTear)
			return finish("crashed")
		}
		if step >= spec.MaxSteps {
			return finish("steps_exceeded")
		}
		gnames, gmap := snapshotEnabled()
		edEnabled := nextEdit < len(steps)
		evEnabled := len(PendingEvs) > 0 && evBlockedAt != lastProgress
		if edEnabled && steps[nextEdit].pause && (len(gnames) > 0 || evEnabled) {
			edEnabled = false
		}
		edNow := false
		if edEnabled && steps[nextEdit].whenRead != "" {
			seen := false
			for i := editArmedAt; i < len(OpLog); i++ {
				if OpLog[i].Op == "read" && OpLog[i].Res == "eof" && OpLog[i].Path == steps[nextEdit].whenRead && OpLog[i].G != "editor" {
					seen = true
					break
				}
			}
			switch {
			case seen:
				edNow = true
				Probe("edit_placed_right_after_a_read")
			case settleLeft <= time.Duration(spec.SettleMs)*time.Millisecond/2:
				steps[nextEdit].whenRead = "" // the read never came: make the edit anyway
				Probe("edit_waited_for_a_read_in_vain")
			default:
				edEnabled = false
			}
		}
		if mainDone && len(gnames) == 0 {
			mu.Lock()
			np := len(parked)
			mu.Unlock()
			if np == 0 && spec.Mode == "oneshot" {
				return finish("returned")
			}
		}

		// --- choose ---
		choice := ""
		if traceIdx < len(spec.Trace) {
			want := spec.Trace[traceIdx]
			traceIdx++
			ok := false
			switch {
			case strings.HasPrefix(want, "g:"):
				_, ok = gmap[want[2:]]
			case want == "ev":
				ok = len(PendingEvs) > 0
			case want == "ed":
				ok = edEnabled
			case strings.HasPrefix(want, "clk:"), want == "settle", want == "probe":
				ok = true
			}
			if ok {
				choice = want
			} else {
				res.Diverged++
			}
		}
		if choice == "" && edNow {
			choice = "ed"
		}
		if choice == "" {
			anything := len(gnames) > 0 || edEnabled || evEnabled
			switch {
			case !anything:
				choice = "settle"
			case spec.GPolicy == "rtc":
				if len(gnames) > 0 {
					if _, ok := gmap[cur]; ok {
						choice = "g:" + cur
					} else {
						choice = "g:" + gnames[0]
					}
				} else if evEnabled {
					choice = "ev"
				} else {
					choice = "ed"
				}
			default:
				x := r.float()
				switch {
				case x < spec.PClk:
					choice = fmt.Sprintf("clk:%d", clkSet[r.intn(len(clkSet))].Microseconds())
				case edEnabled && r.float() < spec.PEd:
					choice = "ed"
				case evEnabled && r.float() < spec.PEv:
					choice = "ev"
				case len(gnames) > 0:
					switch spec.GPolicy {
					case "sticky":
						if _, ok := gmap[cur]; ok && r.float() >= spec.PSwitch {
							choice = "g:" + cur
						} else {
							choice = "g:" + gnames[r.intn(len(gnames))]
						}
					case "starve":
						// newest goroutine first: names sort by creation for timer goroutines
						best := gnames[0]
						for _, n := range gnames {
							if gmap[n].Born > gmap[best].Born {
								best = n
							}
						}
						if r.float() < spec.PSwitch {
							best = gnames[r.intn(len(gnames))]
						}
						choice = "g:" + best
					default: // pct
						for _, n := range gnames {
							if _, ok := prio[n]; !ok {
								prio[n] = 1 + r.float()
							}
						}
						best := gnames[0]
						for _, n := range gnames {
							if prio[n] > prio[best] {
								best = n
							}
						}
						if changePoints[step] {
							prio[best] = r.float() * 0.5
							Probe("pct_change_point")
							best = gnames[0]
							for _, n := range gnames {
								if prio[n] > prio[best] {
									best = n
								}
							}
						}
						choice = "g:" + best
					}
				case evEnabled:
					choice = "ev"
				case edEnabled:
					choice = "ed"
				default:
					choice = "settle"
				}
			}
		}

		// --- execute ---
		res.Trace = append(res.Trace, choice)
		switch {
		case strings.HasPrefix(choice, "g:"):
			name := choice[2:]
			if len(gnames) >= 2 {
				Probe("choice_among_ge2_goroutines")
				nreg := 0
				for _, n := range gnames {
					if strings.HasPrefix(n, "timer") || n == "main.g1" {
						nreg++
					}
				}
				if nreg >= 2 {
					Probe("regen_overlap_ge2")
				}
			}
			if cur != "" && cur != name {
				if _, ok := gmap[cur]; ok {
					Probe("preemption")
				}
			}
			cur = name
			lastProgress = step + 1
			settleLeft = time.Duration(spec.SettleMs) * time.Millisecond
			release(gmap[name])
		case choice == "ev":
			out := deliver()
			if out == "ev-busy" {
				evBlockedAt = lastProgress
			} else {
				settleLeft = time.Duration(spec.SettleMs) * time.Millisecond
				if errEvsLeft > 0 && r.float() < 0.3 {
					errEvsLeft--
					for _, w := range Watchers {
						if !w.Closed && w.SendErr != nil && w.SendErr(fmt.Errorf("fsnotify: queue or buffer overflow")) {
							Probe("overflow_error_delivered")
						}
					}
				}
			}
			res.Trace[len(res.Trace)-1] = choice + "/" + out
		case choice == "ed":
			st := steps[nextEdit]
			nextEdit++
			editArmedAt = len(OpLog)
			st.do()
			if st.last {
				EditsApplied++
			}
			opSeq++
			OpLog = append(OpLog, Op{Seq: opSeq, T: time.Now().UnixNano(), G: "editor", Op: "edit", Path: st.desc, Res: "ok", Mut: false})
			if len(gnames) > 0 {
				Probe("edit_while_regen_in_flight")
			}
			settleLeft = time.Duration(spec.SettleMs) * time.Millisecond
			lastProgress = step + 1
		case strings.HasPrefix(choice, "clk:"):
			var us int64
			fmt.Sscanf(choice[4:], "%d", &us)
			if len(gnames) > 0 {
				Probe("time_advanced_while_regen_parked")
			}
			time.Sleep(time.Duration(us) * time.Microsecond)
			lastProgress = step + 1
		case choice == "settle":
			if spec.Mode == "oneshot" {
				mu.Lock()
				np := len(parked)
				mu.Unlock()
				if mainDone && np == 0 {
					return finish("returned")
				}
				if np > 0 {
					return finish("deadlock")
				}
			}
			if len(PendingEvs) > 0 && evBlockedAt == lastProgress {
				// receiver busy and nothing else can run: only time can unblock it
			}
			if settleLeft <= 0 {
				mu.Lock()
				np := len(parked)
				mu.Unlock()
				if np > 0 {
					return finish("deadlock")
				}
				if !probed {
					// quiescent: take the snapshot the convergence oracle uses, then probe liveness
					res.Quiesced = true
					res.Tree = TheFS.Snapshot()
					if spec.NoTree {
						res.Tree = nil
					}
					probed = true
					alive := len(Watchers) > 0
					for _, w := range Watchers {
						if w.Closed || !w.Send("/probe", EvChmod) {
							alive = false
						}
					}
					res.Alive = alive && !mainDone
					res.Trace[len(res.Trace)-1] = "probe"
					settleLeft = 100 * time.Millisecond
					lastProgress = step + 1
					continue
				}
				return finish("running")
			}
			time.Sleep(settleChunk)
			settleLeft -= settleChunk
			if settleChunk < 5*time.Second {
				settleChunk *= 2
			}
			lastProgress = step + 1
			continue
		}
		settleChunk = 20 * time.Millisecond
	}
}

// Main is what the harness test calls: read the spec named by VERIF_SPEC, run, write the
// result to VERIF_OUT and leave the process.
func Main(t *testing.T, mainFn func(args []string)) {
	specPath := os.Getenv("VERIF_SPEC")
	outPath := os.Getenv("VERIF_OUT")
	raw, err := os.ReadFile(specPath)
	if err != nil {
		fmt.Fprintln(os.Stderr, "verifsim: cannot read spec:", err)
		os.Exit(3)
	}
	var spec Spec
	if err := json.Unmarshal(raw, &spec); err != nil {
		fmt.Fprintln(os.Stderr, "verifsim: bad spec:", err)
		os.Exit(3)
	}
	var result *Result
	func() {
		defer func() {
			if p := recover(); p != nil {
				// synctest reports a deadlocked bubble by panicking; anything else is harness trouble
				fmt.Fprintf(os.Stderr, "verifsim: driver panic: %v\n%s\n", p, debug.Stack())
				os.Exit(3)
			}
		}()
		synctest.Test(t, func(t *testing.T) {
			result = Run(&spec, func() { mainFn(spec.Args) })
			writeResult(outPath, result)
			os.Exit(0)
		})
	}()
	os.Exit(3)
}

func writeResult(outPath string, r *Result) {
	b, err := json.Marshal(r)
	if err != nil {
		fmt.Fprintln(os.Stderr, "verifsim: cannot encode result:", err)
		os.Exit(3)
	}
	if err := os.WriteFile(outPath, b, 0o644); err != nil {
		fmt.Fprintln(os.Stderr, "verifsim: cannot write result:", err)
		os.Exit(3)
	}
}
