package sim

import (
	"bytes"
	"fmt"
	"runtime"
	"strconv"
	gosync "sync"
	"time"
)

// ---------------------------------------------------------------------------------------
// Global state.  One simulated process per OS process.
// ---------------------------------------------------------------------------------------

var (
	TheFS = NewFS()

	mu      gosync.Mutex // protects the registry and the parked list (real mutex; never held across a park)
	active  bool         // scheduler is running: seams park
	gs      = map[int64]*G{}
	parked  []*G
	anonSeq int
	timerSeq int

	OpLog      []Op
	opSeq      int
	Faults     []*Fault
	Exited     bool
	ExitCode   int
	StderrBuf  bytes.Buffer
	StdoutBuf  bytes.Buffer
	Watchers   []*WatcherState
	PendingEvs []*PendingEvent
	evSeq      int
	Probes     = map[string]int{}
	clockFn    = func() time.Time { return time.Unix(0, 0) }
)

func now() time.Time { return clockFn() }

// SetClock installs the clock simulated files take their mtimes from (time.Now inside the bubble).
func SetClock(f func() time.Time) { clockFn = f }

type G struct {
	Name      string
	resume    chan struct{}
	Desc      string
	BlockedOn interface{ isHeld() bool }
	Born      int // op sequence number at registration
	children  int
	Done      bool
}

type Op struct {
	Seq   int    `json:"seq"`
	T     int64  `json:"t"`
	G     string `json:"g"`
	Op    string `json:"op"`
	Path  string `json:"path"`
	Res   string `json:"res"`
	N     int    `json:"n,omitempty"`
	Mut   bool   `json:"mut,omitempty"`
	Fault bool   `json:"fault,omitempty"`
}

func Probe(name string) { Probes[name]++ }

func goid() int64 {
	var buf [64]byte
	n := runtime.Stack(buf[:], false)
	// "goroutine 123 ["
	b := buf[:n]
	b = b[len("goroutine "):]
	i := bytes.IndexByte(b, ' ')
	id, _ := strconv.ParseInt(string(b[:i]), 10, 64)
	return id
}

func curG() *G {
	id := goid()
	mu.Lock()
	g := gs[id]
	if g == nil {
		anonSeq++
		g = &G{Name: fmt.Sprintf("anon%d", anonSeq), resume: make(chan struct{}), Born: opSeq}
		gs[id] = g
	}
	mu.Unlock()
	return g
}

// CurName returns the logical name of the calling goroutine.
func CurName() string {
	if !active {
		return "init"
	}
	return curG().Name
}

func register(name string) *G {
	id := goid()
	mu.Lock()
	opSeq++
	g := &G{Name: name, resume: make(chan struct{}), Born: opSeq}
	OpLog = append(OpLog, Op{Seq: opSeq, T: now().UnixNano(), G: name, Op: "born", Res: "ok"})
	gs[id] = g
	mu.Unlock()
	return g
}

func unregister() {
	id := goid()
	mu.Lock()
	if g := gs[id]; g != nil {
		g.Done = true
	}
	delete(gs, id)
	mu.Unlock()
}

// Yield parks the calling goroutine until the driver releases it.  Every simulated OS call,
// every koanf call and every lock acquisition passes through here.
func Yield(desc string) {
	if !active {
		return
	}
	g := curG()
	park(g, desc)
}

func park(g *G, desc string) {
	g.Desc = desc
	mu.Lock()
	parked = append(parked, g)
	mu.Unlock()
	<-g.resume
}

// Go replaces the `go` statement in the system under test: the child gets a deterministic
// name and is parked at birth, so that parent and child never run at the same time.
func Go(f func()) {
	if !active {
		go f()
		return
	}
	parent := curG()
	parent.children++
	name := fmt.Sprintf("%s.g%d", parent.Name, parent.children)
	// all bookkeeping is done by the parent (the only running goroutine); the child only binds
	// its goroutine id and parks
	mu.Lock()
	opSeq++
	g := &G{Name: name, resume: make(chan struct{}), Born: opSeq}
	OpLog = append(OpLog, Op{Seq: opSeq, T: now().UnixNano(), G: name, Op: "born", Res: "ok"})
	mu.Unlock()
	go func() {
		id := goid()
		mu.Lock()
		gs[id] = g
		mu.Unlock()
		defer unregister()
		park(g, "born")
		f()
	}()
}

// AfterFunc replaces time.AfterFunc: each firing runs on a goroutine named after the timer
// and the firing count, parked at birth.
func AfterFunc(d time.Duration, f func()) *time.Timer {
	if !active {
		return time.AfterFunc(d, f)
	}
	mu.Lock()
	timerSeq++
	id := timerSeq
	mu.Unlock()
	fires := 0
	return time.AfterFunc(d, func() {
		mu.Lock()
		fires++
		name := fmt.Sprintf("timer%d.%d", id, fires)
		mu.Unlock()
		g := register(name)
		defer unregister()
		park(g, "born")
		f()
	})
}

// Exit is the simulated os.Exit: the process is marked exited and the calling goroutine ends.
func Exit(code int) {
	if !active {
		// before/after a run: behave like a process exit would for the harness
		Exited = true
		ExitCode = code
		runtime.Goexit()
	}
	logOp("exit", strconv.Itoa(code), "ok", 0, false, false)
	Exited = true
	ExitCode = code
	runtime.Goexit()
}

func logOp(op, path, res string, n int, mut, fault bool) {
	opSeq++
	name := "init"
	if active {
		name = curG().Name
	}
	OpLog = append(OpLog, Op{Seq: opSeq, T: now().UnixNano(), G: name, Op: op, Path: path, Res: res, N: n, Mut: mut, Fault: fault})
}

// ---------------------------------------------------------------------------------------
// Fault plan
// ---------------------------------------------------------------------------------------

type Fault struct {
	Op      string `json:"op"`      // operation name, "" = any
	Path    string `json:"path"`    // substring of the absolute path, "" = any
	Nth     int    `json:"nth"`     // fire on the n-th match (1-based); 0 = every match
	Count   int    `json:"count"`   // how many times to fire when Nth==0 (0 = unlimited)
	Errno   string `json:"errno"`   // EIO, EACCES, ENOENT, ENOSPC
	Exact   bool   `json:"exact"`   // Path must equal the absolute path (default: substring)
	Until   int    `json:"until"`   // only while fewer than Until edits have been applied (0 = always)
	matched int
	Fired   int `json:"fired"`
}

var EditsApplied int

func checkFault(op, abs string) (string, bool) {
	for _, f := range Faults {
		if f.Op != "" && f.Op != op {
			continue
		}
		if f.Exact && abs != f.Path {
			continue
		}
		if f.Path != "" && !bytes.Contains([]byte(abs), []byte(f.Path)) {
			continue
		}
		if f.Until > 0 && EditsApplied >= f.Until {
			continue
		}
		f.matched++
		if f.Nth > 0 {
			if f.matched != f.Nth {
				continue
			}
		} else if f.Count > 0 && f.Fired >= f.Count {
			continue
		}
		f.Fired++
		return f.Errno, true
	}
	return "", false
}

// ---------------------------------------------------------------------------------------
// Mutex support (sync.Mutex does not block durably inside a synctest bubble)
// ---------------------------------------------------------------------------------------

type Mutex struct {
	real gosync.Mutex
	held bool
}

func (m *Mutex) isHeld() bool { return m.held }

func (m *Mutex) Lock() {
	if !active {
		m.real.Lock()
		return
	}
	g := curG()
	park(g, "mutex.lock")
	for m.held {
		Probe("mutex_contended")
		g.BlockedOn = m
		park(g, "mutex.wait")
		g.BlockedOn = nil
	}
	m.held = true
}

func (m *Mutex) TryLock() bool {
	if !active {
		return m.real.TryLock()
	}
	Yield("mutex.trylock")
	if m.held {
		return false
	}
	m.held = true
	return true
}

func (m *Mutex) Unlock() {
	if !active {
		m.real.Unlock()
		return
	}
	if !m.held {
		panic("sync: unlock of unlocked mutex")
	}
	m.held = false
}

type RWMutex struct {
	real    gosync.RWMutex
	writer  bool
	readers int
}

type rwW struct{ m *RWMutex }
type rwR struct{ m *RWMutex }

func (w rwW) isHeld() bool { return w.m.writer || w.m.readers > 0 }
func (r rwR) isHeld() bool { return r.m.writer }

func (m *RWMutex) Lock() {
	if !active {
		m.real.Lock()
		return
	}
	g := curG()
	park(g, "rwmutex.lock")
	for m.writer || m.readers > 0 {
		g.BlockedOn = rwW{m}
		park(g, "rwmutex.wait")
		g.BlockedOn = nil
	}
	m.writer = true
}
func (m *RWMutex) Unlock() {
	if !active {
		m.real.Unlock()
		return
	}
	m.writer = false
}
func (m *RWMutex) RLock() {
	if !active {
		m.real.RLock()
		return
	}
	g := curG()
	park(g, "rwmutex.rlock")
	for m.writer {
		g.BlockedOn = rwR{m}
		park(g, "rwmutex.rwait")
		g.BlockedOn = nil
	}
	m.readers++
}
func (m *RWMutex) RUnlock() {
	if !active {
		m.real.RUnlock()
		return
	}
	m.readers--
}
func (m *RWMutex) TryLock() bool {
	if !active {
		return m.real.TryLock()
	}
	Yield("rwmutex.trylock")
	if m.writer || m.readers > 0 {
		return false
	}
	m.writer = true
	return true
}
func (m *RWMutex) TryRLock() bool {
	if !active {
		return m.real.TryRLock()
	}
	Yield("rwmutex.tryrlock")
	if m.writer {
		return false
	}
	m.readers++
	return true
}
func (m *RWMutex) RLocker() gosync.Locker { return rlocker{m} }

type rlocker struct{ m *RWMutex }

func (r rlocker) Lock()   { r.m.RLock() }
func (r rlocker) Unlock() { r.m.RUnlock() }
