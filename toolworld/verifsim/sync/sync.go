// Package sync: Mutex and RWMutex are replaced by scheduler-aware versions (a real
// sync.Mutex does not block durably inside a synctest bubble); the rest is re-exported.
package sync

import (
	real "sync"

	"github.com/microsoft/yardl/tooling/verifsim/sim"
)

// OVERRIDES: Mutex,RWMutex,OnceValue,OnceValues

type Mutex = sim.Mutex
type RWMutex = sim.RWMutex

func OnceValue[T any](f func() T) func() T                   { return real.OnceValue(f) }
func OnceValues[T1, T2 any](f func() (T1, T2)) func() (T1, T2) { return real.OnceValues(f) }
